#!/usr/bin/env python3
"""writes seeded/<name>/meta.json from notes.md + result.txt"""
import json, os, sys, re
root='/verif/seeded'
for name in sorted(os.listdir(root)):
    d=os.path.join(root,name)
    if not os.path.isdir(d) or not os.path.exists(d+'/result.txt'): continue
    notes=open(d+'/notes.md').read() if os.path.exists(d+'/notes.md') else ''
    res=open(d+'/result.txt').read().strip().split('\n')
    prop=name.split('-')[0]
    meta={'seed':name,'breaks_property':prop,'what_it_needs_to_manifest':notes.strip(),
          'confirmed':{'line':res[0] if res else ''},
          'what_was_run':'tools/seedtest.sh %s %s (scratch worktree: demo on clean tree, demo+suite with the change; then `git -C /repo apply`, bin/check, `git -C /repo checkout -- .`)'%(name,prop),
          'check_results':res[-1] if res else ''}
    extra=d+'/history.txt'
    if os.path.exists(extra): meta['history']=open(extra).read().strip()
    json.dump(meta,open(d+'/meta.json','w'),indent=1)
    print(name, meta['check_results'])
