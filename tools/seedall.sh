#!/bin/bash
# re-runs every seeded change against the current tree and the current checks (same check IDs as recorded before);
# writes /root/scratch/seedall.log; one line per seed.  Patches /repo while it runs: nothing else may use /repo meanwhile.
cd /verif
: > /root/scratch/seedall.log
for d in seeded/*/; do
  name=$(basename $d)
  [ -f $d/patch.diff ] || continue
  prop=${name%%-*}
  ids=$(tail -1 $d/result.txt 2>/dev/null | grep -o 'C[0-9][0-9]:exit' | sed 's/:exit//' | tr '\n' ' ')
  [ -z "$ids" ] && ids=$prop
  first=$(echo $ids | cut -d' ' -f1)
  rest=$(echo $ids | cut -s -d' ' -f2-)
  tools/seedtest.sh $name $first quick $rest >> /root/scratch/seedall.log 2>&1
done
echo ALLDONE >> /root/scratch/seedall.log
