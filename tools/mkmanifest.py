#!/usr/bin/env python3
"""Regenerates /verif/MANIFEST.json from tools/checks.json (one entry per claimed property)."""
import json, subprocess, sys
root = "/verif"
checks = json.load(open(root + "/tools/checks.json"))
props = [json.loads(l) for l in open(root + "/properties.jsonl")]
ids = [p["id"] for p in props]
hooks_commits = subprocess.run(["git", "-C", "/repo", "log", "--format=%H", "--grep=^verif hooks"], capture_output=True, text=True).stdout.split()
m = {
    "version": 1,
    "setup_cmd": "cd /verif && sh bin/setup",
    "hooks": {
        "guard": "verif",
        "enable": "go build -tags verif (bin/check builds cmd/vcheck with -tags verif against `replace github.com/philhassey/goatlang => /repo`)",
        "baseline_off_cmd": "cd /repo && GOFLAGS=-mod=mod GOPROXY=off GOSUMDB=off GOTOOLCHAIN=local go test -vet=off -count=1 -timeout 25m ./...",
        "source_commits": hooks_commits,
        "add_only": True,
    },
    "engines": [
        {"name": "E1 small-scope program-space explorer", "path": "internal/props, internal/gen", "serves_properties": checks["engines"]["E1"], "kind_free_text": "complete enumeration of a property-specific program grammar up to a size bound; every program executed by the real goatlang and compared with the Go toolchain / go/parser / native Go / a cross-validated reference interpreter"},
        {"name": "E2 explicit-state search over operation histories", "path": "internal/props", "serves_properties": checks["engines"]["E2"], "kind_free_text": "BFS/DFS over histories of real operations on real objects, states canonicalised by a reflective dump hook, answers compared with a Go reference model on every transition"},
        {"name": "E3 bytecode reachability", "path": "internal/props/c07.go", "serves_properties": checks["engines"]["E3"], "kind_free_text": "all-paths exploration of (function, pc, stack depth) over the compiled code of enumerated programs, with conformance replay of real VM traces against the abstract transition table"},
    ],
    "checks": [],
    "notes": checks.get("notes", ""),
    "not_applicable": [],
}
claimed = set()
for c in checks["checks"]:
    pid = c["id"]
    claimed.add(pid)
    m["checks"].append({
        "property_id": pid,
        "quick_cmd": f"bin/check {pid} quick",
        "thorough_cmd": f"bin/check {pid} thorough",
        "evidence_file": f"/verif/evidence/{pid}.json",
        "replay_cmd_template": "bin/check replay {path}",
        "engine": c["engine"],
        "level_claimed": {"category": "model_checking", "text": c["text"], "design_ref": c.get("design_ref", f"DESIGN.md §5 {pid}")},
        "level_note": c["note"],
        "technique": c["technique"],
    })
for pid in ids:
    if pid not in claimed:
        m["not_applicable"].append({"property_id": pid, "reason": checks.get("unclaimed", {}).get(pid, "check not built yet in this tree; no claim is made")})
json.dump(m, open(root + "/MANIFEST.json", "w"), indent=1)
print("claimed", sorted(claimed), "unclaimed", [p for p in ids if p not in claimed])
