#!/bin/bash
# usage: tools/seedtest.sh <seed-name> <property-id> [tier] [extra check ids...]
# Confirms a seeded change (seeded/<name>/patch.diff + demo_test.go) in a scratch worktree
# (suite passes, demo fails with it and passes without), then applies it to /repo, runs the
# property's check, and undoes it.  Prints a one-line verdict; details in seeded/<name>/result.txt
set -u
name=$1; pid=$2; tier=${3:-quick}; shift; shift; shift 2>/dev/null
export GOFLAGS=-mod=mod GOPROXY=off GOSUMDB=off GOTOOLCHAIN=local
dir=/verif/seeded/$name
out=$dir/result.txt
: > $out
wt=/root/scratch/seedwt-$name
rm -rf $wt; git -C /repo worktree prune
git -C /repo worktree add -q --detach $wt HEAD || { echo "$name: cannot create worktree"; exit 2; }
cleanup() { git -C /repo worktree remove --force $wt 2>/dev/null; }
trap cleanup EXIT
cd $wt
cp $dir/demo_test.go.txt $wt/zz_seed_demo_test.go
demo_clean=$(go test -count=1 -run 'Seed|Demo|Mutant' . 2>&1 | tail -3)
echo "$demo_clean" | grep -q '^ok' && dc=pass || dc=FAIL
if ! git apply $dir/patch.diff 2>>$out; then echo "$name: patch does not apply"; exit 2; fi
demo_mut=$(go test -count=1 -run 'Seed|Demo|Mutant' . 2>&1 | tail -5)
echo "$demo_mut" | grep -q '^ok' && dm=PASS || dm=fail
rm $wt/zz_seed_demo_test.go
suite=$(go test -count=1 ./... 2>&1 | grep -v 'no test files' | tail -3)
echo "$suite" | grep -q '^ok' && st=pass || st=FAIL
go build -tags verif ./... >>$out 2>&1 && bt=ok || bt=BUILDFAIL
echo "demo on clean tree: $dc; demo with change: $dm; suite with change: $st; verif-tag build: $bt" >> $out
# now the checks against /repo
cd /verif
if [ -n "$(git -C /repo status --porcelain)" ]; then echo "$name: /repo not clean"; exit 2; fi
git -C /repo apply $dir/patch.diff
verdicts=""
for c in $pid "$@"; do
  start=$(date +%s)
  timeout 3000 bin/check $c $tier > $dir/check-$c.log 2>&1; rc=$?
  end=$(date +%s)
  nv=$(grep -c '^VIOLATION' $dir/check-$c.log)
  verdicts="$verdicts $c:exit=$rc,violations=$nv,$((end-start))s"
done
git -C /repo checkout -- .
echo "checks:$verdicts" >> $out
echo "$name: clean-demo=$dc mutant-demo=$dm suite=$st build=$bt checks:$verdicts"
