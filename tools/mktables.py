#!/usr/bin/env python3
"""Regenerates the fix table (section 8) and the seeded-changes table (section 10) of DESIGN.md between markers."""
import json,glob,re,os,subprocess
d=open('/verif/DESIGN.md').read()
kf=json.load(open('/verif/known_findings.json'))
fixes=subprocess.run(['git','-C','/repo','log','--reverse','--format=%h %s'],capture_output=True,text=True).stdout.strip().split('\n')
fixtab='| commit | fix | first found by |\n|---|---|---|\n'
n=0
for l in fixes:
    h,s=l.split(' ',1)
    if not s.startswith('fix:'): continue
    n+=1
    prop=''
    for k in kf:
        if k.get('commit')==h: prop=k['property']
    fixtab+=f'| {h} | {s[5:]} | {prop} |\n'
rows=[]; missed=0
for dd in sorted(glob.glob('/verif/seeded/*/')):
    if not os.path.exists(dd+'meta.json'): continue
    m=json.load(open(dd+'meta.json'))
    notes=open(dd+'notes.md').read().strip().split('\n')
    first=' '.join(l.strip('# ').strip() for l in notes if l.strip())
    first=re.sub(r'\s+',' ',first)[:200].replace('|','\\|')
    h=os.path.exists(dd+'history.txt')
    missed+=h
    hist=open(dd+'history.txt').read() if h else ''
    status='missed at first; strengthened (history.txt)' if h else 'caught on the first run'
    if 'Superseded' in hist: status='superseded by a later fix of the tree (history.txt)'
    rows.append((m['seed'],first,m['check_results'].replace('checks: ',''),status))
seedtab='| seed | change (from notes.md) | registered check(s) with the change applied | history |\n|---|---|---|---|\n'+'\n'.join('| '+' | '.join(r)+' |' for r in rows)+'\n'
def put(d,name,body):
    a='<!-- %s BEGIN -->'%name; b='<!-- %s END -->'%name
    i=d.index(a)+len(a); j=d.index(b)
    return d[:i]+'\n'+body+d[j:]
# measured numbers of the last sweep, from the evidence files
meas='| id | tier | cases evaluated | non-trivial | violations | exhaustive within bound | wall (s) | further counters |\n|---|---|---|---|---|---|---|---|\n'
for f in sorted(glob.glob('/verif/evidence/C*.json')):
    e=json.load(open(f)); c=e['coverage']
    extra=[]
    for k,v in c.items():
        if k in ('evaluations','distinct_nontrivial','distinct_outcomes','exhaustive','rule','samples','known_findings_hit','not_exhaustive_reasons'): continue
        if isinstance(v,(int,float)) and not isinstance(v,bool): extra.append(f'{k}={v}')
    meas+=f"| {e['property_id']} | {e.get('tier','')} | {c.get('evaluations')} | {c.get('distinct_nontrivial')} | {(e.get('violations') if isinstance(e.get('violations'),int) else len(e.get('violations',[])))} | {c.get('exhaustive')} | {e.get('wall_s','')} | {', '.join(extra[:8])} |\n"
if '<!-- MEASURED BEGIN -->' in d:
    d=put(d,'MEASURED',meas)
d=put(d,'FIXTABLE',fixtab)
d=put(d,'SEEDTABLE',seedtab)
d=put(d,'COUNTS',f'{n} `fix:` commits; {len(rows)} seeded changes, {len(rows)-missed} reported by the check as first built, {missed} missed at first.\n')
open('/verif/DESIGN.md','w').write(d)
print(n,'fixes',len(rows),'seeds',missed,'missed at first')
