#!/bin/bash
# usage: tools/runall.sh quick|thorough  -- runs every registered check, prints one summary line each
tier=${1:-quick}
cd "$(dirname "$0")/.."
for id in $(python3 -c "import json;print(' '.join(c['property_id'] for c in json.load(open('MANIFEST.json'))['checks']))"); do
  start=$(date +%s)
  out=$(bin/check $id $tier 2>&1); rc=$?
  end=$(date +%s)
  echo "$id rc=$rc $((end-start))s $(echo "$out" | grep -E "^$id $tier:" | tail -1)"
  echo "$out" | grep -E "^(VIOLATION|KNOWN-FINDING|HARNESS)" | head -3
done
