#!/bin/bash
# usage: tools/seedimport.sh <ID> <worktree> <nameA> <nameB>   -- copies SEED/A,B of a worktree into seeded/<ID>-<name>
id=$1; wt=$2; a=$3; b=$4
for pair in A:$a B:$b; do src=${pair%%:*}; dst=${pair##*:}
  [ -d $wt/SEED/$src ] || { echo "missing $wt/SEED/$src"; continue; }
  mkdir -p /verif/seeded/$id-$dst
  cp $wt/SEED/$src/patch.diff $wt/SEED/$src/notes.md /verif/seeded/$id-$dst/
  cp $wt/SEED/$src/demo_test.go /verif/seeded/$id-$dst/demo_test.go.txt
done
git -C /repo worktree remove --force $wt
