// vcheck runs one property check: vcheck <id> <quick|thorough>, or replays a case: vcheck replay <file>.
package main

import (
	"fmt"
	"os"
	"runtime/debug"
	"time"

	"verif/internal/props"
	"verif/internal/report"
)

func main() {
	// the checks allocate millions of short-lived VMs; the default GC target makes 16 workers spend most of their time in GC
	debug.SetGCPercent(800)
	// ... but never let the heap run away: with a soft limit the collector works harder as the heap approaches it
	debug.SetMemoryLimit(24 << 30)
	if len(os.Args) < 3 {
		fmt.Fprintln(os.Stderr, "usage: vcheck <property-id> <quick|thorough> | vcheck replay <file>")
		os.Exit(2)
	}
	if os.Args[1] == "child" && len(os.Args) >= 4 {
		// child process of a supervised exploration (inputs on stdin, one result line per input)
		switch os.Args[2] {
		case "C14":
			props.C14Child(os.Args[3] == "thorough")
		case "C03":
			props.C03Child(os.Args[3:])
		}
		return
	}
	if os.Args[1] == "replay" {
		c, err := report.ReadCase(os.Args[2])
		if err != nil {
			fmt.Fprintln(os.Stderr, err)
			os.Exit(2)
		}
		f := props.Rerunners[c.Property]
		if f == nil {
			fmt.Fprintln(os.Stderr, "no replayer for", c.Property)
			os.Exit(2)
		}
		still, got := f(c)
		fmt.Printf("case kind=%s\n%s\nwant: %s\ngot:  %s\n", c.Kind, c.Key, c.Want, got)
		if still {
			fmt.Printf("VIOLATION property=%s replay=%s\n", c.Property, os.Args[2])
			os.Exit(1)
		}
		fmt.Println("case passes")
		return
	}
	id, tier := os.Args[1], os.Args[2]
	if t := os.Getenv("VERIF_TIER"); t == "quick" || t == "thorough" {
		tier = t
	}
	f := props.Registry[id]
	if f == nil || (tier != "quick" && tier != "thorough") {
		fmt.Fprintln(os.Stderr, "unknown property or tier:", id, tier)
		os.Exit(2)
	}
	r := report.New(id, tier)
	r.Rerun = props.Rerunners[id]
	// internal deadline: stop exploring, report what was covered, exit 0
	limit := 20 * time.Minute
	if tier == "thorough" {
		limit = 100 * time.Minute
	}
	r.Deadline = time.Now().Add(limit)
	f(r)
	r.Finish()
}
