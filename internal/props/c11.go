package props

import (
	"fmt"
	"strings"

	"github.com/philhassey/goatlang"

	"verif/internal/goat"
	"verif/internal/oracle"
	"verif/internal/par"
	"verif/internal/report"
)

// C11 — slices alias, grow and copy as Go slices do.
//
// E2 over histories on a pool of aliasing slice variables.  The reference is
// an explicit (array, offset, len, cap, cap-known) model; it only predicts what
// the Go specification fixes independently of the growth policy (operations
// whose outcome depends on an unknown capacity are pruned from the alphabet
// at that state).  Each history runs (G) step by step through Eval on global
// variables, observed through the host Value API and dumped for state merging,
// (L) as one function body on local slots with printed observations, and
// (H) through the host API (NewSlice/Slice/Append/Set).  The model itself is
// validated against the Go toolchain on every Go-valid history of the run.

var c11vars = []string{"a", "b", "c"}

type c11arr struct {
	cells    []int
	capKnown bool
}

type c11var struct {
	isNil   bool
	arr     int
	off, ln int
}

type c11state struct {
	arrs []c11arr
	vars []c11var
}

func (s *c11state) clone() *c11state {
	n := &c11state{vars: append([]c11var{}, s.vars...)}
	for _, a := range s.arrs {
		n.arrs = append(n.arrs, c11arr{append([]int{}, a.cells...), a.capKnown})
	}
	return n
}

func (s *c11state) elems(v c11var) []int {
	if v.isNil {
		return nil
	}
	return s.arrs[v.arr].cells[v.off : v.off+v.ln]
}

// fresh value: one more than the largest value visible anywhere (canonical: depends on the state only)
func (s *c11state) fresh() int {
	m := 0
	for _, a := range s.arrs {
		for _, c := range a.cells {
			if c > m {
				m = c
			}
		}
	}
	return m + 1
}

// canon drops unreferenced arrays, renumbers arrays by first use and returns the state key.
func (s *c11state) canon() string {
	remap := map[int]int{}
	var arrs []c11arr
	for i, v := range s.vars {
		if v.isNil {
			continue
		}
		if _, ok := remap[v.arr]; !ok {
			remap[v.arr] = len(arrs)
			arrs = append(arrs, s.arrs[v.arr])
		}
		s.vars[i].arr = remap[v.arr]
	}
	s.arrs = arrs
	var b strings.Builder
	for _, a := range s.arrs {
		fmt.Fprintf(&b, "%v%v;", a.cells, a.capKnown)
	}
	for _, v := range s.vars {
		if v.isNil {
			b.WriteString("nil|")
		} else {
			fmt.Fprintf(&b, "%d:%d:%d|", v.arr, v.off, v.ln)
		}
	}
	return b.String()
}

// observation text of the model, in the format the scripts print
func (s *c11state) obs() string {
	var p []string
	for _, v := range s.vars {
		p = append(p, c11obs(v.isNil, s.elems(v)))
	}
	return strings.Join(p, " ")
}

func c11obs(isNil bool, e []int) string {
	var q []string
	for _, x := range e {
		q = append(q, fmt.Sprint(x))
	}
	return fmt.Sprintf("%v %d [%s]", isNil, len(e), strings.Join(q, " "))
}

// an operation
type c11op struct {
	Kind string `json:"kind"` // make lit nil slice set append spread copy
	V    int    `json:"v"`
	W    int    `json:"w"`
	U    int    `json:"u,omitempty"`
	I    int    `json:"i,omitempty"`
	J    int    `json:"j,omitempty"`
	N    int    `json:"n,omitempty"`
	Bad  bool   `json:"bad,omitempty"` // must be a run-time error
	Form int    `json:"form,omitempty"`
}

// text renders the statement; fresh values are supplied by the model state before the op.
func (o c11op) text(s *c11state) string {
	v, w := c11vars[o.V], ""
	if o.W < len(c11vars) {
		w = c11vars[o.W]
	}
	f := s.fresh()
	switch o.Kind {
	case "make":
		return fmt.Sprintf("%s = make([]int, %d)", v, o.N)
	case "lit":
		var e []string
		for k := 0; k < o.N; k++ {
			e = append(e, fmt.Sprint(f+k))
		}
		return fmt.Sprintf("%s = []int{%s}", v, strings.Join(e, ", "))
	case "nil":
		return fmt.Sprintf("%s = nil", v)
	case "slice":
		if o.Bad {
			return fmt.Sprintf("%s = %s[idx(%d):idx(%d)]", w, v, o.I, o.J)
		}
		switch o.Form {
		case 1:
			return fmt.Sprintf("%s = %s[%d:]", w, v, o.I)
		case 2:
			return fmt.Sprintf("%s = %s[:%d]", w, v, o.J)
		case 3:
			return fmt.Sprintf("%s = %s[:]", w, v)
		}
		return fmt.Sprintf("%s = %s[%d:%d]", w, v, o.I, o.J)
	case "set":
		if o.Bad {
			return fmt.Sprintf("%s[idx(%d)] = %d", v, o.I, f)
		}
		return fmt.Sprintf("%s[%d] = %d", v, o.I, f)
	case "append":
		var e []string
		for k := 0; k < o.N; k++ {
			e = append(e, fmt.Sprint(f+k))
		}
		return fmt.Sprintf("%s = append(%s, %s)", w, v, strings.Join(e, ", "))
	case "spread":
		return fmt.Sprintf("%s = append(%s, %s...)", w, v, c11vars[o.U])
	case "copy":
		return fmt.Sprintf("copy(%s, %s)", v, w)
	}
	return "?"
}

// apply runs the op on the model; ok=false means the op must fail at run time (state unchanged).
func (s *c11state) apply(o c11op) (ok bool) {
	f := s.fresh()
	v := s.vars[o.V]
	switch o.Kind {
	case "make":
		s.arrs = append(s.arrs, c11arr{make([]int, o.N), true})
		s.vars[o.V] = c11var{arr: len(s.arrs) - 1, ln: o.N}
	case "lit":
		c := make([]int, o.N)
		for k := range c {
			c[k] = f + k
		}
		s.arrs = append(s.arrs, c11arr{c, true})
		s.vars[o.V] = c11var{arr: len(s.arrs) - 1, ln: o.N}
	case "nil":
		s.vars[o.V] = c11var{isNil: true}
	case "slice":
		if o.Bad {
			return false
		}
		if v.isNil {
			s.vars[o.W] = c11var{isNil: true}
		} else {
			s.vars[o.W] = c11var{arr: v.arr, off: v.off + o.I, ln: o.J - o.I}
		}
	case "set":
		if o.Bad {
			return false
		}
		s.arrs[v.arr].cells[v.off+o.I] = f
	case "append", "spread":
		var xs []int
		if o.Kind == "append" {
			for k := 0; k < o.N; k++ {
				xs = append(xs, f+k)
			}
		} else {
			xs = append(xs, s.elems(s.vars[o.U])...)
		}
		n := len(xs)
		if !v.isNil && s.arrs[v.arr].capKnown && v.off+v.ln+n <= len(s.arrs[v.arr].cells) {
			copy(s.arrs[v.arr].cells[v.off+v.ln:], xs)
			s.vars[o.W] = c11var{arr: v.arr, off: v.off, ln: v.ln + n}
		} else if v.isNil && n == 0 {
			s.vars[o.W] = c11var{isNil: true}
		} else {
			c := append(append([]int{}, s.elems(v)...), xs...)
			s.arrs = append(s.arrs, c11arr{c, false})
			s.vars[o.W] = c11var{arr: len(s.arrs) - 1, ln: len(c)}
		}
	case "copy":
		w := s.vars[o.W]
		src := append([]int{}, s.elems(w)...)
		copy(s.elems(v), src)
	}
	return true
}

func (s *c11state) capOf(v c11var) (int, bool) {
	if v.isNil {
		return 0, true
	}
	a := s.arrs[v.arr]
	if a.capKnown {
		return len(a.cells) - v.off, true
	}
	return v.ln, false
}

func (s *c11state) shares(arr int, except ...int) bool {
	for i, v := range s.vars {
		skip := false
		for _, e := range except {
			if e == i {
				skip = true
			}
		}
		if !skip && !v.isNil && v.arr == arr {
			return true
		}
	}
	return false
}

// alphabet at a state: only operations whose outcome the Go specification fixes.
func (s *c11state) alphabet(nv int, rich bool) []c11op {
	var ops []c11op
	for v := 0; v < nv; v++ {
		ops = append(ops, c11op{Kind: "make", V: v, N: 3}, c11op{Kind: "lit", V: v, N: 3}, c11op{Kind: "nil", V: v}, c11op{Kind: "make", V: v, N: 0})
		if rich {
			ops = append(ops, c11op{Kind: "lit", V: v, N: 1}, c11op{Kind: "lit", V: v, N: 0}, c11op{Kind: "make", V: v, N: 1})
		}
	}
	for v := 0; v < nv; v++ {
		sv := s.vars[v]
		cp, known := s.capOf(sv)
		for w := 0; w < nv; w++ {
			for i := 0; i <= cp; i++ {
				for j := i; j <= cp; j++ {
					ops = append(ops, c11op{Kind: "slice", V: v, W: w, I: i, J: j})
				}
			}
			if w == (v+1)%nv {
				// omitted-bound spellings and the out-of-range forms, once per source variable
				if !sv.isNil {
					ops = append(ops, c11op{Kind: "slice", V: v, W: w, I: minInt(1, sv.ln), J: sv.ln, Form: 1},
						c11op{Kind: "slice", V: v, W: w, I: 0, J: minInt(cp, sv.ln+1), Form: 2},
						c11op{Kind: "slice", V: v, W: w, I: 0, J: sv.ln, Form: 3})
				}
				if known {
					ops = append(ops, c11op{Kind: "slice", V: v, W: w, I: 0, J: cp + 1, Bad: true})
				}
				if cp >= 1 {
					ops = append(ops, c11op{Kind: "slice", V: v, W: w, I: 1, J: 0, Bad: true})
				}
				if !sv.isNil {
					// computed negative bounds are out of range (never "counted from the end")
					ops = append(ops, c11op{Kind: "slice", V: v, W: w, I: 0, J: -1, Bad: true}, c11op{Kind: "slice", V: v, W: w, I: 0, J: -2, Bad: true}, c11op{Kind: "slice", V: v, W: w, I: -1, J: sv.ln, Bad: true})
				}
			}
			// append
			nOK := func(n int) bool {
				if sv.isNil {
					return true
				}
				if s.arrs[sv.arr].capKnown {
					return true
				}
				// unknown capacity: only if afterwards nobody else can see the old array
				return !s.shares(sv.arr, v, w) && v == w
			}
			for _, n := range []int{1, 2} {
				if nOK(n) {
					ops = append(ops, c11op{Kind: "append", V: v, W: w, N: n})
				}
			}
			for u := 0; u < nv; u++ {
				if nOK(s.vars[u].ln) {
					ops = append(ops, c11op{Kind: "spread", V: v, W: w, U: u})
				}
			}
			ops = append(ops, c11op{Kind: "copy", V: v, W: w})
		}
		for i := 0; i < sv.ln; i++ {
			ops = append(ops, c11op{Kind: "set", V: v, I: i})
		}
		ops = append(ops, c11op{Kind: "set", V: v, I: sv.ln, Bad: true})
	}
	return ops
}

func minInt(a, b int) int {
	if a < b {
		return a
	}
	return b
}

type c11hist struct {
	NV  int     `json:"nv"`
	Ops []c11op `json:"ops"`
}

func c11initial(nv int) *c11state {
	s := &c11state{}
	for i := 0; i < nv; i++ {
		s.vars = append(s.vars, c11var{isNil: true})
	}
	return s
}

// c11model replays a history on the model: statements, expected observation after each step, and whether the last step must fail.
func c11model(h c11hist) (stmts []string, obs []string, lastBad bool, final *c11state) {
	s := c11initial(h.NV)
	for _, o := range h.Ops {
		stmts = append(stmts, o.text(s))
		if !s.apply(o) {
			lastBad = true
			break
		}
		s.canon()
		obs = append(obs, s.obs())
	}
	return stmts, obs, lastBad, s
}

// mode G: globals, one Eval per step, observed through the host API
func c11runG(h c11hist, stmts []string) (obs []string, failed bool, dump string, problem string) {
	m := goat.New()
	defer m.Close()
	decl := "func idx(n int) int { return n }\n"
	for i := 0; i < h.NV; i++ {
		decl += "var " + c11vars[i] + " []int\n"
	}
	if r := m.Eval(nil, decl); r.Failed() {
		return nil, true, "", "declaration failed: " + r.String()
	}
	for k, st := range stmts {
		r := m.Eval(nil, st)
		if r.HostPanic != nil {
			return obs, true, "", fmt.Sprintf("host panic in step %d: %v", k, r.HostPanic)
		}
		if r.Err != nil {
			return obs, true, "", ""
		}
		var p []string
		var vals []goatlang.Value
		for i := 0; i < h.NV; i++ {
			v := m.VM.Get("main." + c11vars[i])
			vals = append(vals, v)
			var e []int
			func() {
				defer func() {
					if x := recover(); x != nil {
						problem = fmt.Sprintf("host panic while reading %s: %v", c11vars[i], x)
					}
				}()
				for q := 0; q < v.Len(); q++ {
					x, _ := v.Get(goatlang.Int(q))
					if m.TypeOf(x) != "int32" {
						problem = fmt.Sprintf("%s[%d] has type %s", c11vars[i], q, m.TypeOf(x))
					}
					e = append(e, x.Int())
				}
			}()
			p = append(p, c11obs(v.Equals(goatlang.Nil()), e))
		}
		obs = append(obs, strings.Join(p, " "))
		dump = goatlang.VerifDump(vals...)
	}
	return obs, false, dump, problem
}

// mode L: the whole history in one function on local slots, observations printed
func c11scriptL(pkg string, h c11hist, stmts []string, goValid bool) string {
	var b strings.Builder
	b.WriteString("package " + pkg + "\n\nimport \"fmt\"\n\nfunc idx(n int) int {\n\treturn n\n}\n\nfunc show(s []int) {\n\tfmt.Print(s == nil)\n\tfmt.Print(\" \")\n\tfmt.Print(len(s))\n\tfmt.Print(\" [\")\n\tfor i, x := range s {\n\t\tif i > 0 {\n\t\t\tfmt.Print(\" \")\n\t\t}\n\t\tfmt.Print(x)\n\t}\n\tfmt.Print(\"]\")\n}\n\nfunc Main() {\n")
	for i := 0; i < h.NV; i++ {
		b.WriteString("\tvar " + c11vars[i] + " []int\n")
	}
	for _, st := range stmts {
		b.WriteString("\t" + st + "\n")
		for i := 0; i < h.NV; i++ {
			if i > 0 {
				b.WriteString("\tfmt.Print(\" \")\n")
			}
			b.WriteString("\tshow(" + c11vars[i] + ")\n")
		}
		b.WriteString("\tfmt.Println()\n")
	}
	b.WriteString("}\n")
	return b.String()
}

// mode H: host API
func c11runH(h c11hist) (obs string, problem string, applicable bool) {
	vals := make([]goatlang.Value, h.NV)
	isSet := make([]bool, h.NV)
	s := c11initial(h.NV)
	defer func() {
		if x := recover(); x != nil {
			problem = fmt.Sprintf("host panic: %v", x)
		}
	}()
	for _, o := range h.Ops {
		f := s.fresh()
		mk := func(n int, lit bool) goatlang.Value {
			d := make([]goatlang.Value, n)
			for k := range d {
				if lit {
					d[k] = goatlang.Int(f + k)
				} else {
					d[k] = goatlang.Int(0)
				}
			}
			return goatlang.NewSlice(goatlang.TypeInt32, d)
		}
		switch o.Kind {
		case "make":
			vals[o.V], isSet[o.V] = mk(o.N, false), true
		case "lit":
			vals[o.V], isSet[o.V] = mk(o.N, true), true
		case "slice":
			if !isSet[o.V] || o.Bad {
				return "", "", false
			}
			vals[o.W], isSet[o.W] = vals[o.V].Slice(o.I, o.J), true
		case "set":
			if !isSet[o.V] || o.Bad {
				return "", "", false
			}
			vals[o.V].Set(goatlang.Int(o.I), goatlang.Int(f))
		case "append":
			if !isSet[o.V] {
				return "", "", false
			}
			var xs []goatlang.Value
			for k := 0; k < o.N; k++ {
				xs = append(xs, goatlang.Int(f+k))
			}
			vals[o.W], isSet[o.W] = vals[o.V].Append(xs...), true
		default:
			return "", "", false // nil / spread / copy have no host-API spelling
		}
		if !s.apply(o) {
			return "", "", false
		}
		s.canon()
	}
	var p []string
	for i := 0; i < h.NV; i++ {
		if !isSet[i] {
			p = append(p, c11obs(true, nil))
			continue
		}
		var e []int
		next := vals[i].Range()
		for {
			k, v, ok := next()
			if !ok {
				break
			}
			if k.Int() != len(e) {
				problem = "Range index out of order"
			}
			e = append(e, v.Int())
		}
		if len(e) != vals[i].Len() {
			problem = "Range length differs from Len"
		}
		p = append(p, c11obs(false, e))
	}
	return strings.Join(p, " "), problem, true
}

func (h c11hist) String() string {
	st, _, _, _ := c11model(h)
	return strings.Join(st, "; ")
}

func c11check(r *report.Run, h c11hist, wantKey *string) (implKey string) {
	stmts, wobs, lastBad, _ := c11model(h)
	// G
	gobs, gfailed, dump, problem := c11runG(h, stmts)
	r.Eval(1)
	fail := func(mode, want, got string) {
		r.Fail(&report.Case{Kind: "history-" + mode, Key: strings.Join(stmts, "; "), Input: h, Want: want, Got: got})
	}
	switch {
	case problem != "":
		fail("G", "no host panic, elements of type int32", problem)
	case lastBad && !gfailed:
		fail("G", "run-time error at `"+stmts[len(stmts)-1]+"`", "no error; observations "+strings.Join(gobs, " / "))
	case !lastBad && gfailed:
		fail("G", strings.Join(wobs, " / "), "error after "+strings.Join(gobs, " / "))
	case strings.Join(gobs, "/") != strings.Join(wobs, "/"):
		fail("G", strings.Join(wobs, " / "), strings.Join(gobs, " / "))
	}
	// L
	src := c11scriptL("h", h, stmts, false)
	res := goat.RunMain(map[string]string{"h/h.go": src}, "h", "h.Main")
	r.Eval(1)
	wantOut := ""
	for _, o := range wobs {
		wantOut += o + "\n"
	}
	switch {
	case res.HostPanic != nil:
		fail("L", wantOut, res.String())
	case lastBad && res.Err == nil:
		fail("L", "run-time error at `"+stmts[len(stmts)-1]+"`", "no error; output "+res.Out)
	case !lastBad && res.Err != nil:
		fail("L", wantOut, res.String())
	case res.Out != wantOut:
		fail("L", wantOut, res.Out)
	}
	// H
	if hobs, hp, ok := c11runH(h); ok {
		r.Eval(1)
		if hp != "" {
			fail("H", "no panic", hp)
		} else if len(wobs) > 0 && c11stripNil(hobs) != c11stripNil(wobs[len(wobs)-1]) {
			// host-built slices are never nil: contents only
			fail("H", wobs[len(wobs)-1], hobs)
		}
	}
	return dump
}

func c11stripNil(s string) string {
	return strings.NewReplacer("true ", "", "false ", "").Replace(s)
}

func c11run(r *report.Run) {
	thorough := r.Tier == "thorough"
	nv, depth, dfsDepth, rich := 2, 4, 3, false
	if thorough {
		nv, depth, dfsDepth, rich = 3, 4, 3, true
	}
	r.Rule(fmt.Sprintf("BFS over histories of make/literal/nil/sub-slice (all i<=j<=cap, omitted-bound spellings)/element write/append 1-2/append-spread/copy and out-of-range forms on %d aliasing []int variables to depth %d, states merged on (reference model state, reflective dump of the implementation slices); every transition executed three ways (globals+host observation, locals+printed observation, host API); unmerged DFS to depth %d; element-type templates; non-trivial = history in which two variables share an array and one is written or appended through", nv, depth, dfsDepth))
	r.Assume("operations whose outcome depends on an unknown capacity (append to a grown slice that is still shared) are pruned, so nothing depending on the growth policy is compared", "reference model validated against the Go toolchain on the Go-valid histories of this run", "element type int for the history search; byte/string/float64 through templates")
	type node struct {
		h c11hist
		s *c11state
	}
	start := node{c11hist{NV: nv}, c11initial(nv)}
	seen := map[string]bool{start.s.canon() + "|": true}
	frontier := []node{start}
	states, transitions := 1, 0
	var goHists []c11hist
	for d := 0; d < depth && len(frontier) > 0; d++ {
		if r.Expired() {
			r.NotExhaustive("internal deadline reached during BFS")
			break
		}
		type cand struct {
			h    c11hist
			s    *c11state
			key  string
			dump string
		}
		var cands []cand
		for _, n := range frontier {
			for _, o := range n.s.alphabet(nv, rich) {
				nh := c11hist{NV: nv, Ops: append(append([]c11op{}, n.h.Ops...), o)}
				ns := n.s.clone()
				ok := ns.apply(o)
				key := ""
				if ok {
					key = ns.canon()
				}
				cands = append(cands, cand{h: nh, s: ns, key: key})
			}
		}
		transitions += len(cands)
		par.DoChunk(len(cands), 32, func(i int) {
			if r.Expired() {
				return
			}
			cands[i].dump = c11check(r, cands[i].h, nil)
		})
		var next []node
		for _, c := range cands {
			if c.key == "" {
				continue // failing operation: history ends
			}
			k := c.key + "|" + c.dump
			if !seen[k] {
				seen[k] = true
				next = append(next, node{c.h, c.s})
				states++
				if c11nontrivial(c.h) {
					r.Nontrivial(c.h.String())
				}
				if len(goHists) < 6000 && (states%3 == 0 || d < 3) {
					goHists = append(goHists, c.h)
				}
				if states%1500 == 7 {
					st, ob, _, _ := c11model(c.h)
					r.Sample(map[string]any{"history": strings.Join(st, "; "), "expected_observations_per_step(isnil len elems per variable)": ob, "implementation_dump": c.dump})
				}
			}
		}
		frontier = next
		r.Set(fmt.Sprintf("states_at_depth_%d", d+1), len(next))
	}
	r.Set("states", states)
	r.Set("transitions", transitions)
	// unmerged DFS guard
	dfsN := 0
	var dfs func(n node)
	var dfsJobs []c11hist
	dfs = func(n node) {
		if len(n.h.Ops) == dfsDepth {
			return
		}
		for _, o := range n.s.alphabet(nv, false) {
			nh := c11hist{NV: nv, Ops: append(append([]c11op{}, n.h.Ops...), o)}
			ns := n.s.clone()
			dfsJobs = append(dfsJobs, nh)
			if ns.apply(o) {
				ns.canon()
				dfs(node{nh, ns})
			}
		}
	}
	dfs(start)
	par.DoChunk(len(dfsJobs), 32, func(i int) {
		if !r.Expired() {
			c11check(r, dfsJobs[i], nil)
		}
	})
	dfsN = len(dfsJobs)
	r.Set("unmerged_dfs_histories", dfsN)
	// element types through templates
	for _, tc := range c11templates() {
		res := goat.RunMain(map[string]string{"t/t.go": tc[0]}, "t", "t.Main")
		r.Eval(1)
		got := res.Out
		if res.Failed() {
			got = res.String()
		}
		if got != tc[1] {
			r.Fail(&report.Case{Kind: "template", Key: tc[0], Files: map[string]string{"t/t.go": tc[0]}, Want: tc[1], Got: got})
		}
	}
	// validate the model against the Go toolchain
	cache := oracle.OpenCache("c11")
	defer cache.Save()
	var progs []*oracle.Prog
	var wants []string
	for i, h := range goHists {
		stmts, wobs, lastBad, _ := c11model(h)
		pkg := fmt.Sprintf("h%05d", i)
		progs = append(progs, &oracle.Prog{Pkg: pkg, Files: map[string]string{"h.go": c11scriptL(pkg, h, stmts, true)}, Entry: "Main"})
		w := ""
		for _, o := range wobs {
			w += o + "\n"
		}
		if lastBad {
			w += "PANIC"
		}
		wants = append(wants, w)
	}
	for i, tc := range c11templates() {
		pkg := fmt.Sprintf("t%05d", i)
		progs = append(progs, &oracle.Prog{Pkg: pkg, Files: map[string]string{"t.go": strings.Replace(tc[0], "package t\n", "package "+pkg+"\n", 1)}, Entry: "Main"})
		wants = append(wants, tc[1])
	}
	gres, err := cache.Run(progs)
	validated := 0
	if err != nil {
		r.HarnessError("Go oracle: %v", err)
	} else {
		for k, gr := range gres {
			got := gr.Out
			if gr.Panicked {
				got += "PANIC"
			}
			if gr.BuildErr != "" {
				r.HarnessError("history rejected by the Go toolchain: %s", gr.BuildErr)
			} else if got != wants[k] {
				r.HarnessError("reference model disagrees with the Go toolchain on %s:\nGo:    %q\nmodel: %q\n%s", progs[k].Pkg, got, wants[k], progs[k].Files["h.go"])
			} else {
				validated++
			}
		}
	}
	r.Set("traces_validated_against_impl", validated)
}

func c11nontrivial(h c11hist) bool {
	s := c11initial(h.NV)
	for _, o := range h.Ops {
		if (o.Kind == "set" || o.Kind == "append" || o.Kind == "spread" || o.Kind == "copy") && !s.vars[o.V].isNil && s.shares(s.vars[o.V].arr, o.V) {
			return true
		}
		if !s.apply(o) {
			return false
		}
	}
	return false
}

// element-type templates: constants stored/appended take the element type (checked by wrapping arithmetic), nil slices.
func c11templates() [][2]string {
	var out [][2]string
	add := func(body, want string) {
		out = append(out, [2]string{"package t\n\nimport \"fmt\"\n\nfunc Main() {\n" + body + "}\n", want})
	}
	add("\ts := []byte{250}\n\ts = append(s, 255)\n\ts[0] += 10\n\ts[1]++\n\tfmt.Println(s[0], s[1], len(s))\n", "4 0 2\n")
	add("\tvar s []byte\n\ts = append(s, 200, 100)\n\tx := s[0] + s[1]\n\tfmt.Println(x, len(s), s == nil)\n", "44 2 false\n")
	add("\ts := make([]byte, 2)\n\ts[1] = 255\n\ts[1] += 2\n\tfmt.Println(s[0], s[1])\n", "0 1\n")
	add("\ts := make([]float64, 2)\n\ts[0] = 1\n\ts = append(s, 2)\n\tfmt.Println(s[0]/2, s[2]/4, s[1] == 0.0)\n", "0.5 0.5 true\n")
	add("\ts := make([]string, 2)\n\ts = append(s, \"x\")\n\tt := s[1:3]\n\tt[0] = \"y\"\n\tfmt.Println(s[0] == \"\", s[1], s[2], len(t))\n", "true y x 2\n")
	add("\tvar s []int\n\tn := 0\n\tfor i, x := range s {\n\t\tn += i + x + 1\n\t}\n\tfmt.Println(len(s), n, s == nil)\n\ts = append(s, 5)\n\tfmt.Println(len(s), s[0], s == nil)\n", "0 0 true\n1 5 false\n")
	add("\tb := make([]byte, 3)\n\tn := 0\n\tcopy(b, \"héllo\")\n\tfor _, x := range b {\n\t\tn += int(x)\n\t}\n\tfmt.Println(b[0], b[1], b[2], n)\n", "104 195 169 468\n")
	add("\ta := []int{1, 2, 3, 4}\n\tb := a[1:3]\n\tcopy(a, b)\n\tfmt.Println(a[0], a[1], a[2], a[3], b[0], b[1])\n", "2 3 3 4 3 3\n")
	add("\ta := []int{1, 2, 3, 4}\n\tcopy(a[1:], a)\n\tfmt.Println(a[0], a[1], a[2], a[3])\n", "1 1 2 3\n")
	// range reads the live array: an element written by the body before the loop reaches it is seen, also through an
	// alias; the length is fixed when the loop starts
	add("\ts := []int{1, 2, 3, 4}\n\tt := s[1:]\n\tsum := 0\n\tfor i, v := range s {\n\t\tif i == 0 {\n\t\t\ts[2] = 30\n\t\t\tt[2] = 40\n\t\t}\n\t\tsum += v\n\t}\n\tfmt.Println(sum)\n", "73\n")
	add("\ts := []int{1, 1, 1, 1, 1}\n\tfor i := range s {\n\t\tif i > 0 {\n\t\t\ts[i] += s[i-1]\n\t\t}\n\t}\n\trun := 0\n\tfor i, v := range s {\n\t\tif i+1 < len(s) {\n\t\t\ts[i+1] = v * 2\n\t\t}\n\t\trun += v\n\t}\n\tfmt.Println(s, run)\n", "[1 2 4 8 16] 31\n")
	add("\ts := []int{1, 2, 3}\n\tn := 0\n\tfor _, v := range s {\n\t\ts = append(s, v)\n\t\tn++\n\t}\n\tfmt.Println(n, len(s))\n\tm := make([]int, 0)\n\ta := append(m, 1)\n\tb := append(m, 2)\n\tb[0] = 7\n\tfmt.Println(a[0], b[0], len(m))\n", "3 6\n1 7 0\n")
	// the value of copy: assigned, inside an expression, as an argument; nil and shorter operands; next to live locals
	add("\ta := []int{1, 2, 3, 4}\n\tb := []int{9, 8}\n\tvar z []int\n\tn1 := copy(a, b)\n\tn2 := copy(b, a)\n\tn3 := copy(z, a)\n\tn4 := copy(a, z)\n\tn5 := copy(a[3:], b)\n\tfmt.Println(n1, n2, n3, n4, n5, a, b, copy(a[1:], a), a)\n", "2 2 0 0 1 [9 9 8 3] [9 8] 3 [9 9 8 3]\n")
	add("\tb := make([]byte, 2)\n\tn := copy(b, \"héllo\")\n\tfmt.Println(n, b, 1+copy(b, \"x\")*2, b)\n", "2 [120 195] 3 [120 195]\n")
	add("\tp, q := 5, 6\n\ta := []int{1, 2, 3}\n\tcopy(a, a[1:])\n\tn := copy(a, a[2:])\n\tfor i := 0; i < 2; i++ {\n\t\tn += copy(a[i:], a)\n\t\tcopy(a, a)\n\t}\n\tfmt.Println(p, q, n, a)\n", "5 6 6 [3 3 3]\n")
	add("\ta := make([]int8, 1)\n\ta[0] = 127\n\ta[0]++\n\ta = append(a, -128)\n\ta[1]--\n\tfmt.Println(a[0], a[1])\n", "-128 127\n")
	add("\ta := []uint32{4000000000}\n\ta = append(a, 4294967295)\n\ta[1]++\n\tfmt.Println(a[0], a[1])\n", "4000000000 0\n")
	// constants stored by tuple assignments, conversions of nil, computed bounds of exactly -1
	add("\tg := make([]float64, 2)\n\th := make([]float64, 2)\n\tg[0], h[1] = 1, 3\n\tb := make([]byte, 2)\n\tb[0], b[1] = 200, 100\n\tb[0] += b[1]\n\tvar i8 []int8 = make([]int8, 2)\n\ti8[1], i8[0] = 127, 1\n\ti8[1] += i8[0]\n\tfmt.Println(g[0]/2, h[1]/2, b[0], i8[1])\n", "0.5 1.5 44 -128\n")
	add("\tk := append([]float64(nil), 1)\n\tb := append([]byte(nil), 200)\n\tb[0] += 100\n\tvar d []float64 = nil\n\td = append(d, 1)\n\te := []float64(nil)\n\te = append(e, 1, 2)\n\te[1] = 3\n\tfmt.Println(k[0]/2, b[0], d[0]/2, e[1]/2, len([]int(nil)), []string(nil) == nil)\n", "0.5 44 0.5 1.5 0 true\n")
	return out
}

func c11rerun(c *report.Case) (bool, string) {
	if c.Kind == "template" {
		res := goat.RunMain(c.Files, "t", "t.Main")
		got := res.Out
		if res.Failed() {
			got = res.String()
		}
		return got != c.Want, got
	}
	var h c11hist
	if !remarshal(c.Input, &h) {
		return false, "bad input"
	}
	rr := report.New("C11", "quick")
	c11check(rr, h, nil)
	return rr.Violations() > 0, "re-executed in all three modes"
}

func init() { register("C11", c11run, c11rerun) }
