// Package props wires, per property, alphabet + bound + oracle.
package props

import "verif/internal/report"

var Registry = map[string]func(*report.Run){}
var Rerunners = map[string]func(*report.Case) (bool, string){}

func register(id string, run func(*report.Run), rerun func(*report.Case) (bool, string)) {
	Registry[id] = run
	Rerunners[id] = rerun
}
