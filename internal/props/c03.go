package props

import (
	"bufio"
	"bytes"
	"context"
	"errors"
	"fmt"
	"go/scanner"
	"go/token"
	"io"
	"io/fs"
	"os"
	"os/exec"
	"regexp"
	"runtime/debug"
	"sort"
	"strconv"
	"strings"
	"sync"
	"testing/fstest"
	"time"

	"github.com/philhassey/goatlang"

	"verif/internal/goat"
	"verif/internal/par"
	"verif/internal/report"
)

// C03 — no input can take the embedding host down.
//
// Spaces (all index-addressable, enumerated completely, explored in supervised
// child processes so that a fatal error or a hang is isolated by bisection):
//   bytes : all byte strings of length <=2 over all 256 bytes, length 3 over 48 byte classes
//   tokens: all token strings of length <=2 over the token alphabet T, length 3 over a sharp
//           sub-alphabet (thorough: over all of T)
//   seeds : every test-table input and one valid program per statement form with 0, 1 and 2
//           token-level deviations (delete / replace / insert, every position, every token)
//   trees : all in-memory file trees of <=2 (3) files over 4 directories x 14 file bodies,
//           with 0 or 1 injected fs.FS failure, x 8 option subsets x 3 entry points
// Oracle (an invariant): the call returns, no panic escapes, errors of Eval/Load start with
// the failing stage, then Call/Func on what the input defined also return.

var c03T = []string{":=", "=", "+=", "-=", "*=", "/=", "%=", "|=", "^=", "&=", "<<=", ">>=", "||", "&&", "!", "<", ">", "<=", ">=", "==", "!=", "|", "^", "&", "<<", ">>", "+", "-", "*", "/", "%", "++", "--", ".", "...", "(", "[", "{", "[]", "map", ",", "func", "return", "if", "for", "package", "import", "const", "var", "type", "switch", "$", "make", "true", "false", "nil", "error", "range", "float64", "any", "int", "int32", "byte", "uint8", "rune", "uint32", "uint", "int8", "int16", "int64", "uint16", "uint64", "bool", "string", "continue", "break", "struct", "interface", "case", "default", "iota", ";", ":", "}", ")", "]", "else", "chan", "go", "<-", "->",
	"0", "1", "42", "0x1f", "08", "1.5", `"s"`, "'s'", `'\n'`, "x", "T", "main", "_", "f", "\n", "len", "append", "delete", "copy", "panic", "println", "fmt", "`r`", "&^", "~", "#", "?", "\\", "@", `"\400"`, `'\400'`, "0x", "1e", "09", "import", "`", "100000", "4294967296", "99999999999999999999"}

var c03sharp = []string{"(", ")", "{", "}", "[", "]", "[]", ",", ";", ":", ".", "...", "=", ":=", "func", "return", "if", "for", "range", "switch", "case", "default", "type", "struct", "var", "x", "1", "+", "f", "\n", "100000", "-"}

var c03bytes3 = []byte{0, '\t', '\n', ' ', '!', '"', '#', '$', '%', '&', '\'', '(', ')', '*', '+', ',', '-', '.', '/', '0', '9', ':', ';', '<', '=', '>', '?', '@', 'A', '[', '\\', ']', '^', '_', '`', 'a', 'e', 'x', '{', '|', '}', '~', 0x7f, 0x80, 0xc3, 0xa9, 0xff, 'f'}

var c03formSeeds = []string{
	`func f() int { }; f()`, `x /;`, `a := []int{1}; b := []int{2}; n := copy(a,b)`, `import "a"`, ``,
	`x := 1`, `var x int`, `var x, y = 1, 2`, `const c = 1`, `const ( a = iota; b )`, `x := 1; x++`, `x := 1; x += 2`, `x, y := 1, 2; x, y = y, x`,
	`if true { 1 }`, `if x := 1; x > 0 { } else if x < 0 { } else { }`, `for i := 0; i < 2; i++ { }`, `for { break }`, `x := []int{1}; for i, v := range x { _ = i; _ = v }`,
	`switch 1 { case 1: default: }`, `switch { case true: break }`, `func f(a int, b ...int) (int, int) { return a, len(b) }; f(1, 2)`, `type T struct { n int }; func (t *T) M() int { return t.n }; t := &T{n: 1}; t.M()`,
	`type I interface { M() int }`, `m := map[string]int{"a": 1}; v, ok := m["a"]; delete(m, "a"); v; ok`, `s := "héllo"; s[1:2]; len(s)`, `x := make([]int, 2); x = append(x, 1); x[0:1]`,
	`f := func(a int) int { return a }; f(1)`, `import "fmt"; fmt.Println(1)`, `import ( "math"; s "strings" ); math.Sqrt(4); s.Repeat("a", 2)`, `var f func() int; f()`, `panic("x")`,
	`x := 1 << 3 | 2 &^ 1`, `!true || false && 1 < 2`, `type M []float64; m := M{1}; m[0]`, `type E struct{}; var e *E; e == nil`, `x := 'a'; y := "a" + "b"; z := 1.5e3; x; y; z`,
	`func f() { f() }; f()`, `m := map[string]any{}; m["self"] = m; println(m)`, `s := []any{nil}; s[0] = s; println(s); m := map[int]any{1: s}; s[0] = m; println(m)`, `type N struct { p any }; n := &N{}; n.p = n; println(n); l := []any{n}; n.p = l; println(l)`, `func f() int { x := []int{1, 2}; x[1] = 5; m := map[int]int{1: 2}; m[1] = 3; return x[0] + m[1] }; f()`, `type T struct { n int }; func f() int { t := &T{n: 1}; t.n = 2; t.n++; return t.n }; f()`, "import (\nx \"a\"\n)", `import "fmt"; import f "fmt"; f.Println(1)`, `import x "\400"`, `for { }`, `x := []int{}; x[0]`, `var m map[string]int; m["a"] = 1`, `1 / 0`, `$`, `$ 1`,
	// valid Go at or beyond the edge of the subset: every optional part omitted, every statement form goatlang may not know
	`for i := 0; ; i++ { break }`, `for ; ; { break }`, `i := 0; for ; i < 2; { i++ }`, `for i := 0; i < 2; { i++ }`, `for i := range 3 { _ = i }`, `for range []int{1} { }`,
	`if ; true { }`, `switch x := 1; x { case 1: }`, `switch x := 1; { case x > 0: }`, `switch { }`, `switch 1 { default: fallthrough; case 2: }`,
	`func() { }()`, `func f() { defer f() }`, `func f() { go f() }`, `L: for { break L }`, `goto L; L:`, `var a [3]int; a[0]`, `a := [...]int{1, 2}; a[1]`, `x := 1i`, `c := make(chan int, 1); c <- 1; <-c`, `select { }`,
	`var x any = 1; switch v := x.(type) { case int: _ = v }`, `var x any = 1; y := x.(int); y`, `var x any = 1; y, ok := x.(int); y; ok`, `func f[T any](x T) T { return x }; f(1)`, `x := []int{1, 2, 3}; x[0:1:2]`,
	`type T struct { a, b int; c string }; t := T{1, 2, "c"}; t.a`, `type T struct { N struct { m int } }; var t T; t.N.m`, `s := struct{ a int }{1}; s.a`, `type A = int; var a A`, `type ( A int; B []A )`, `var ( a = 1; b int )`,
	`const c int = 1`, `x := new(int); *x = 1; *x`, `x := 1; p := &x; *p`, `type T struct{}; func (T) M() {}; T.M(T{})`, `type T struct{}; func (t T) M() {}; f := T{}.M; f()`, `var f func(int, ...string) (int, error)`,
	`x := map[string][]int{"a": {1}}; x["a"][0]`, `x := [][]int{{1}, {2}}; x[1][0]`, `x := []struct{ a int }{{1}}; x[0].a`, `var _ = 1`, `_ = 1`, `x := 1; x, y := 2, 3; y`, `a, b := 1`, `return`, `return 1, 2`, `break`, `continue`, `fallthrough`,
	`package main; func main() { }`, `package main; import "fmt"; func init() { fmt.Println(1) }`, `import . "fmt"`, `import _ "fmt"`, `func main`, `func (`, `type T`, `type T struct`, `var`, `const`, `x.`, `x[`, `f(`, `[]int{`, `map[`, `1 +`, `-`, `func f() (a, b int) { return }; f()`, `func f(a, b int, c string) { }; f(1, 2, "")`,
	`func f() (int, string) { return 1, "" }; a, b := f(); a; b`, `type T struct { f func() int }; t := &T{f: func() int { return 1 }}; t.f()`, `type I interface { M() }; type T struct{}; func (t *T) M() { }; var i I = &T{}; i.M()`, `x := "a"; x += "b"; x[0]`, `for i, c := range "hé" { _ = i; _ = c }`,
	`m := map[string]int{}; m["a"]++; m["a"] += 2; for k, v := range m { _ = k; _ = v }`, `x := 1; x <<= 2; x >>= 1; x &^= 1; x %= 3`, `x := uint8(255); x++; y := int8(-128); y--; x; y`, `f := 1.5; i := int(f); s := string(rune(65)); b := []byte("a"); i; s; b`,
}

type c03case struct {
	Space string            `json:"space"`
	Idx   int               `json:"idx"`
	Src   string            `json:"src"`
	Files map[string]string `json:"files,omitempty"`
	Opts  int               `json:"opts"`
	Entry int               `json:"entry"` // trees: 0 Eval of `import "a"`-style source, 1 Load("main"), 2 Load("main/f.go")
	Fault int               `json:"fault"` // trees: 0 none, k>0: the k-th fs call fails
	Masks []int             `json:"masks,omitempty"`
	Gen   *c03scaleGen      `json:"gen,omitempty"` // scale: Src is produced from this (kept out of the replay file's size)
}

// --- seeds ---------------------------------------------------------------------------------

type c03seedSet struct {
	toks  [][]string
	cum1  []int // cumulative count of 0+1-deviation variants with the given alphabet
	alpha []string
}

var (
	c03seedsOnce sync.Once
	c03seedToks  [][]string
)

func c03tokenize(src string) []string {
	var s scanner.Scanner
	fset := token.NewFileSet()
	f := fset.AddFile("", fset.Base(), len(src))
	s.Init(f, []byte(src), func(token.Position, string) {}, 0)
	var out []string
	for {
		_, tok, lit := s.Scan()
		if tok == token.EOF {
			break
		}
		switch {
		case tok == token.SEMICOLON && lit == "\n":
			out = append(out, "\n")
		case lit != "":
			out = append(out, lit)
		default:
			out = append(out, tok.String())
		}
		if len(out) > 400 {
			break
		}
	}
	return out
}

func c03loadSeeds() [][]string {
	c03seedsOnce.Do(func() {
		seen := map[string]bool{}
		add := func(s string) {
			t := c03tokenize(s)
			k := strings.Join(t, "\x00")
			if !seen[k] && len(t) <= 120 {
				seen[k] = true
				c03seedToks = append(c03seedToks, t)
			}
		}
		for _, s := range c03formSeeds {
			add(s)
		}
		if h, err := harvest(); err == nil {
			for _, s := range h.Strings {
				add(s)
			}
			for _, t := range h.Trees {
				var names []string
				for n := range t {
					names = append(names, n)
				}
				sort.Strings(names)
				for _, n := range names {
					add(t[n])
				}
			}
		}
	})
	return c03seedToks
}

func c03join(t []string) string { return strings.Join(t, " ") }

// variants of a seed with exactly one deviation over alphabet A: index v in [0, n + n*|A| + (n+1)*|A|)
func c03dev1count(n, a int) int { return n + n*a + (n+1)*a }

func c03dev1(t []string, alpha []string, v int) []string {
	n, a := len(t), len(alpha)
	out := make([]string, 0, n+1)
	switch {
	case v < n: // delete token v
		out = append(out, t[:v]...)
		out = append(out, t[v+1:]...)
	case v < n+n*a: // replace
		v -= n
		i, k := v/a, v%a
		out = append(out, t[:i]...)
		out = append(out, alpha[k])
		out = append(out, t[i+1:]...)
	default: // insert
		v -= n + n*a
		i, k := v/a, v%a
		out = append(out, t[:i]...)
		out = append(out, alpha[k])
		out = append(out, t[i:]...)
	}
	return out
}

// --- spaces ----------------------------------------------------------------------------------

type c03space struct {
	name string
	size int
	gen  func(idx int) c03case
}

func c03pow(b, e int) int {
	r := 1
	for i := 0; i < e; i++ {
		r *= b
	}
	return r
}

func c03spaces(thorough bool) []c03space {
	var sp []c03space
	// bytes
	nb := len(c03bytes3)
	sp = append(sp, c03space{"bytes", 1 + 256 + 65536 + nb*nb*nb, func(i int) c03case {
		var b []byte
		switch {
		case i == 0:
		case i < 257:
			b = []byte{byte(i - 1)}
		case i < 257+65536:
			i -= 257
			b = []byte{byte(i >> 8), byte(i)}
		default:
			i -= 257 + 65536
			b = []byte{c03bytes3[i/(nb*nb)], c03bytes3[i/nb%nb], c03bytes3[i%nb]}
		}
		return c03case{Src: string(b)}
	}})
	// tokens
	nt, ns := len(c03T), len(c03sharp)
	a3 := c03sharp
	if thorough {
		a3 = c03T
	}
	n3 := len(a3)
	sp = append(sp, c03space{"tokens", nt + nt*nt + n3*n3*n3, func(i int) c03case {
		switch {
		case i < nt:
			return c03case{Src: c03T[i]}
		case i < nt+nt*nt:
			i -= nt
			return c03case{Src: c03T[i/nt] + " " + c03T[i%nt]}
		}
		i -= nt + nt*nt
		return c03case{Src: a3[i/(n3*n3)] + " " + a3[i/n3%n3] + " " + a3[i%n3]}
	}})
	_ = ns
	// seeds: 0 and 1 deviation
	seeds := c03loadSeeds()
	alpha := c03sharp
	if thorough {
		alpha = c03T
	}
	cum := make([]int, len(seeds)+1)
	for i, t := range seeds {
		cum[i+1] = cum[i] + 1 + c03dev1count(len(t), len(alpha))
	}
	sp = append(sp, c03space{"seeds-dev<=1", cum[len(seeds)], func(i int) c03case {
		s := sort.Search(len(seeds), func(k int) bool { return cum[k+1] > i })
		v := i - cum[s]
		if v == 0 {
			return c03case{Src: c03join(seeds[s])}
		}
		return c03case{Src: c03join(c03dev1(seeds[s], alpha, v-1))}
	}})
	// seeds: 2 deviations = all pairs of deletions; for short seeds all pairs of edits over a small alphabet
	small := []string{"(", ")", "{", "}", ",", ";", "=", "func", "x", "1", "[", "]"}
	maxShort := 5
	if thorough {
		small = c03sharp
		maxShort = 7
	}
	cum2 := make([]int, len(seeds)+1)
	for i, t := range seeds {
		n := len(t)
		c := n * (n - 1) / 2
		if n <= maxShort {
			d1 := c03dev1count(n, len(small))
			// second deviation applied to the result of the first: lengths n-1, n, n+1; bounded above by the largest
			c += d1 * c03dev1count(n+1, len(small))
		}
		cum2[i+1] = cum2[i] + c
	}
	sp = append(sp, c03space{"seeds-dev2", cum2[len(seeds)], func(i int) c03case {
		s := sort.Search(len(seeds), func(k int) bool { return cum2[k+1] > i })
		v := i - cum2[s]
		t := seeds[s]
		n := len(t)
		if v < n*(n-1)/2 {
			// pair (a<b) of deletions
			a := 0
			for v >= n-1-a {
				v -= n - 1 - a
				a++
			}
			b := a + 1 + v
			out := make([]string, 0, n)
			for k, x := range t {
				if k != a && k != b {
					out = append(out, x)
				}
			}
			return c03case{Src: c03join(out)}
		}
		v -= n * (n - 1) / 2
		per := c03dev1count(n+1, len(small))
		first := c03dev1(t, small, v/per)
		second := v % per
		if second >= c03dev1count(len(first), len(small)) {
			return c03case{Src: c03join(first)} // padding index (shorter intermediate): the 1-deviation variant again
		}
		return c03case{Src: c03join(c03dev1(first, small, second))}
	}})
	// loadsrc: the token and seed spaces again, as the one file of package main, through Load
	tokSp, seedSp := sp[1], sp[2]
	frames := []string{"", "package main\n", "package main\nfunc main() {\n", "package main\nimport \"fmt\"\nvar _ = fmt.Sprint\n"}
	sp = append(sp, c03space{"loadsrc", tokSp.size*len(frames)*2 + seedSp.size, func(i int) c03case {
		var src string
		var frame, entry int
		if i < tokSp.size*len(frames)*2 {
			entry = 1 + i%2
			frame = i / 2 % len(frames)
			src = tokSp.gen(i / 2 / len(frames)).Src
		} else {
			i -= tokSp.size * len(frames) * 2
			src = seedSp.gen(i).Src
			entry = 1 + i%2
			frame = i / 2 % len(frames)
		}
		src = frames[frame] + src
		if frame == 2 {
			src += "\n}\n"
		}
		m := i % 8
		return c03case{Src: src, Files: map[string]string{"main/f0.go": src}, Entry: entry, Masks: []int{m, 7 - m}}
	}})
	// types: all type expressions of <=5 constructors (and pure chains up to 12) over 6 bases in 6 statement forms
	sp = append(sp, c03typeSpace(thorough))
	// scale: inputs at and across the widths of the encodings (8, 15, 16, 20 bits)
	sp = append(sp, c03scaleSpace(thorough))
	// trees
	sp = append(sp, c03treeSpace(thorough))
	return sp
}

// --- types ---------------------------------------------------------------------------------------

var c03tcons = []string{"[]", "map[string]", "map[int]", "*"}
var c03tbase = []string{"int", "string", "float64", "T", "any", "func()"}
var c03tforms = []string{"var x TYPE; println(x)", "x := TYPE{}; println(x)", "x := make(TYPE, 1); println(x)", "func f(a TYPE) TYPE { return a }; x := f(nil); println(x)", "type U struct { f TYPE }; u := &U{}; println(u.f); println(u)", "var x any = TYPE{}; println(x)"}
var c03tpre = []int{0, 90, 200}

func c03typeExprs(thorough bool) []string {
	maxLen := 4
	if thorough {
		maxLen = 6
	}
	out := []string{""}
	level := []string{""}
	for l := 1; l <= maxLen; l++ {
		var next []string
		for _, p := range level {
			for _, c := range c03tcons {
				next = append(next, p+c)
			}
		}
		out = append(out, next...)
		level = next
	}
	for _, c := range c03tcons[:3] {
		for k := maxLen + 1; k <= 12; k++ {
			out = append(out, strings.Repeat(c, k))
		}
	}
	return out
}

func c03typeSpace(thorough bool) c03space {
	ex := c03typeExprs(thorough)
	nb, nf, np := len(c03tbase), len(c03tforms), len(c03tpre)
	return c03space{"types", len(ex) * nb * nf * np, func(i int) c03case {
		pre := c03tpre[i%np]
		i /= np
		form := c03tforms[i%nf]
		i /= nf
		base := c03tbase[i%nb]
		i /= nb
		var sb strings.Builder
		for g := 0; g < pre; g++ {
			fmt.Fprintf(&sb, "var g%d = %d\n", g, g)
		}
		sb.WriteString("type T struct { a int }\n")
		sb.WriteString(strings.ReplaceAll(form, "TYPE", ex[i]+base))
		m := i % 8
		return c03case{Src: sb.String(), Masks: []int{m, 7 - m, 3}}
	}}
}

// --- scale ---------------------------------------------------------------------------------------

type c03scaleGen struct {
	Kind string `json:"kind"`
	N    int    `json:"n"`
	Tail int    `json:"tail"`
}

var c03scaleTails = []string{"x := 1\nx", "x := \"\\400\"", "x /;", "x := undefinedName", "y := 0; x := 1/y", "func f() int { y := 0; return 1/y }; func g() int { return f() }; g()", "var m map[string]int; m[\"k\"] = 1", "panic(\"p\")"}
var c03padKinds = []string{"newlines", "spaces", "block-comment", "line-comment", "crlf", "tabs", "semicolons"}
var c03bigKinds = []string{"paren", "block", "slicetype", "literal", "locals", "globals", "stmts", "args", "ident", "string", "rawstring", "digits", "params", "fields", "methods", "mapentries", "results", "funcs", "returns-of", "sprint-args", "string-concat-run"}
var c03quadKinds = []string{"opassign-nest", "call", "chain", "neg", "else", "not", "and-chain", "deref", "closure-nest", "index-nest", "index-chain", "select-chain", "if-else-if", "cases", "compl", "ptr-type"}

// runaway and very deep recursion: run without the harness's depth and step budgets, so that it is goatlang itself
// that has to stop (the Go runtime kills the process at a 1 GB stack, which no recover catches)
var c03recurseKinds = []string{"recurse-sort", "recurse-sort-stable", "recurse-self", "recurse-counted", "recurse-mutual", "recurse-method", "recurse-variadic", "recurse-value", "recurse-main", "recurse-f-args", "recurse-locals"}

func (g c03scaleGen) recursion() bool { return strings.HasPrefix(g.Kind, "recurse-") }

func (g c03scaleGen) source() string {
	n := g.N
	switch g.Kind {
	case "recurse-sort", "recurse-sort-stable": // through a native callback: every Func call starts a fresh VM value
		fn := map[string]string{"recurse-sort": "SortFunc", "recurse-sort-stable": "SortStableFunc"}[g.Kind]
		return "import \"golang.org/x/exp/slices\"\nfunc r(n int) int {\n\ts := []int{2, 1}\n\tslices." + fn + "(s, func(a, b int) bool {\n\t\tr(n + 1)\n\t\treturn a < b\n\t})\n\treturn n\n}\nr(0)"
	case "recurse-self":
		return "func r() {\n\tr()\n}\nr()"
	case "recurse-counted":
		return fmt.Sprintf("func d(n int) int {\n\tif n == 0 {\n\t\treturn 0\n\t}\n\treturn d(n-1) + 1\n}\nx := d(%d)\nx", n)
	case "recurse-mutual":
		return "func a(n int) int {\n\treturn b(n + 1)\n}\nfunc b(n int) int {\n\treturn a(n + 1)\n}\na(0)"
	case "recurse-method":
		return "type R struct {\n\tn int\n}\nfunc (t *R) M() int {\n\tt.n++\n\treturn t.M()\n}\ny := &R{}\ny.M()"
	case "recurse-variadic":
		return "func v(a ...int) int {\n\treturn v(a...)\n}\nv(1, 2)"
	case "recurse-value":
		return "var g func(int) int\nfunc h(n int) int {\n\treturn g(n + 1)\n}\ng = h\nh(0)"
	case "recurse-main": // defined only: the recursion happens under Call("main.main")
		return "func main() {\n\tmain()\n}"
	case "recurse-f-args": // defined only: the recursion happens under Func(f, ...) with 0..2 arguments
		return "func f(a ...any) int {\n\treturn f(a...) + 1\n}\nfunc F(a ...any) {\n\tF()\n}"
	case "recurse-locals": // wide frames: the value stack grows by 200 slots per call
		var sb strings.Builder
		sb.WriteString("func w(n int) int {\n")
		for i := 0; i < 200; i++ {
			fmt.Fprintf(&sb, "\tv%d := n + %d\n", i, i)
		}
		fmt.Fprintf(&sb, "\tif n == 0 {\n\t\treturn v199\n\t}\n\treturn w(n-1) + v0 - v0\n}\nw(%d)", n)
		return sb.String()
	}
	rep := strings.Repeat
	var sb strings.Builder
	many := func(f string, a ...func(i int) any) {
		for i := 0; i < n; i++ {
			args := make([]any, len(a))
			for k := range a {
				args[k] = a[k](i)
			}
			fmt.Fprintf(&sb, f, args...)
		}
	}
	id := func(i int) any { return i }
	switch g.Kind {
	case "newlines":
		return rep("\n", n) + c03scaleTails[g.Tail]
	case "spaces":
		return rep(" ", n) + c03scaleTails[g.Tail]
	case "tabs":
		return rep("\t", n) + c03scaleTails[g.Tail]
	case "crlf":
		return rep("\r\n", n) + c03scaleTails[g.Tail]
	case "semicolons":
		return rep(";", n) + c03scaleTails[g.Tail]
	case "block-comment":
		return "/*" + rep("c\n", n) + "*/ " + c03scaleTails[g.Tail]
	case "line-comment":
		return "//" + rep("c", n) + "\n" + c03scaleTails[g.Tail]
	case "paren":
		return "x := " + rep("(", n) + "1" + rep(")", n) + "\nx"
	case "block":
		return "x := 0\n" + rep("{", n) + "x++" + rep("}", n) + "\nx"
	case "slicetype":
		return "var x " + rep("[]", n) + "int\nprintln(len(x))"
	case "literal":
		return "x := []int{" + rep("1,", n) + "}\nlen(x)"
	case "locals":
		sb.WriteString("func f() int {\n")
		many("v%d := %d\n", id, id)
		fmt.Fprintf(&sb, "s := 0\nfor k, v := range []int{1, 2, 3} {\ns += k*v\n}\nreturn v%d + s\n}\nx := f()\nx", n-1)
		return sb.String()
	case "globals":
		many("v%d := %d\n", id, id)
		fmt.Fprintf(&sb, "func f() int { return v%d / v0 }\nf()\nx := f()", n-1)
		return sb.String()
	case "stmts":
		return "x := 0\nfor i := 0; i < 2; i++ {\nif i == 1 {\nbreak\n}\n" + rep("x++\n", n) + "if x < 0 {\ncontinue\n}\n}\nx"
	case "args":
		return "func f(a ...int) int { return len(a) }\nx := f(" + rep("1,", n) + ")\nx"
	case "ident":
		name := rep("a", n)
		return name + " := 1\n" + name + " / 0"
	case "string":
		return "x := \"" + rep("s", n) + "\"\nlen(x)"
	case "rawstring":
		return "x := `" + rep("s\n", n) + "`\nlen(x) / 0"
	case "digits":
		return "x := " + rep("9", n) + "\nx"
	case "params":
		sb.WriteString("func f(")
		many("p%d int, ", id)
		sb.WriteString(") int { return p0 }\nx := f(")
		many("%d, ", id)
		sb.WriteString(")\nx")
		return sb.String()
	case "fields":
		sb.WriteString("type T struct {\n")
		many("f%d int\n", id)
		fmt.Fprintf(&sb, "}\nt := &T{f%d: 1}\nt.f0 = 2\nprintln(t.f%d)\nx := t.f0 / (t.f%d - 1)", n-1, n-1, n-1)
		return sb.String()
	case "methods":
		sb.WriteString("type T struct { n int }\n")
		many("func (t *T) M%d() int { return t.n + %d }\n", id, id)
		fmt.Fprintf(&sb, "t := &T{n: 1}\nx := t.M%d() + t.M0()\nx", n-1)
		return sb.String()
	case "cases":
		fmt.Fprintf(&sb, "x := 0\nswitch %d {\n", n-1)
		many("case %d:\nx = %d\n", id, id)
		sb.WriteString("default:\nx = -1\n}\nx")
		return sb.String()
	case "mapentries":
		sb.WriteString("m := map[int]int{")
		many("%d: %d, ", id, id)
		fmt.Fprintf(&sb, "}\nx := len(m) + m[%d]\nx", n-1)
		return sb.String()
	case "results":
		sb.WriteString("func f() (" + rep("int, ", n) + ") { return " + rep("1, ", n-1) + "2 }\n")
		sb.WriteString(rep("_, ", n-1) + "x := f()\nx")
		return sb.String()
	case "funcs":
		many("func f%d() int { return %d }\n", id, id)
		fmt.Fprintf(&sb, "x := f%d() + f0()\nx", n-1)
		return sb.String()
	case "returns-of":
		sb.WriteString("func f(k int) int {\n")
		many("if k == %d { return %d }\n", id, id)
		fmt.Fprintf(&sb, "return -1\n}\nx := f(%d)\nx", n-1)
		return sb.String()
	case "sprint-args":
		return "import \"fmt\"\nx := fmt.Sprint(" + rep("1, ", n) + ")\nlen(x)"
	case "index-chain":
		return "x := []int{0}\ny := x" + rep("[0:1]", n) + "\nlen(y)"
	case "select-chain":
		return "type T struct { p *T; n int }\nt := &T{n: 1}\nt.p = t\nx := t" + rep(".p", n) + ".n\nx"
	case "if-else-if":
		sb.WriteString("x := 0\nk := -1\n")
		many("if k == %d { x = %d } else ", id, id)
		sb.WriteString("{ x = -1 }\nx")
		return sb.String()
	case "string-concat-run":
		return "x := \"\"\nfor i := 0; i < " + strconv.Itoa(n) + "; i++ { x += \"ab\" }\nlen(x)"
	case "call":
		return "func f(a int) int { return a }\nx := " + rep("f(", n) + "1" + rep(")", n) + "\nx"
	case "chain":
		return "x := 1" + rep(" + 1", n) + "\nx"
	case "opassign-nest": // a statement where an operand should be: not Go, but it parses; every level once, not twice
		return "a := []int{0}\n" + rep("a[", n) + "0" + rep("]++", n)
	case "const-chain": // the const group copies its expressions (implicit repetition): a recursive copy of a left-deep tree
		return "const (\n\tA = 1" + rep("+1", n) + "\n)\nA"
	case "neg":
		return "x := " + rep("- ", n) + "1\nx"
	case "not":
		return "x := " + rep("!", n) + "true\nx"
	case "else":
		return "x := 0\n" + rep("if false { } else ", n) + "{ x = 1 }\nx"
	case "and-chain":
		return "x := true" + rep(" && true", n) + "\nx"
	case "deref":
		return "type T struct { n int }\nt := &T{n: 1}\nx := (" + rep("*", n) + "t).n\nx"
	case "closure-nest":
		return "f := " + rep("func() int { return ", n) + "1" + rep(" }()", n) + "\nf"
	case "compl":
		return "x := " + rep("^", n) + "1\nx"
	case "ptr-type":
		return "var x " + rep("*", n) + "int\nprintln(x == nil)"
	case "index-nest":
		return "x := []int{0}\ny := " + rep("x[", n) + "0" + rep("]", n) + "\ny"
	}
	return ""
}

func c03scaleSpace(thorough bool) c03space {
	widths := []int{127, 128, 129, 255, 256, 257, 32767, 32768, 65535, 65536, 65537, 131072}
	if thorough {
		widths = append(widths, 1<<20-1, 1<<20, 1<<20+1)
	}
	quads := []int{127, 128, 129, 255, 256, 257, 1024}
	if thorough {
		quads = append(quads, 4096)
	}
	var gens []c03scaleGen
	for _, k := range c03padKinds {
		for _, n := range widths {
			for t := range c03scaleTails {
				gens = append(gens, c03scaleGen{k, n, t})
			}
		}
	}
	for _, k := range c03bigKinds {
		for _, n := range widths {
			if n > 70000 && k != "paren" && k != "string" && k != "ident" {
				continue
			}
			gens = append(gens, c03scaleGen{k, n, 0})
		}
	}
	for _, k := range c03quadKinds {
		for _, n := range quads {
			gens = append(gens, c03scaleGen{k, n, 0})
		}
	}
	// nesting a million deep: the front end must refuse or cope, not overflow the Go stack (plain Eval only:
	// the dumps of such a tree are quadratic in its depth)
	nflat := len(gens) * 4
	var deep []c03scaleGen
	for _, k := range c03quadKinds {
		if k != "cases" { // flat, but quadratic to compile
			deep = append(deep, c03scaleGen{k, 1 << 20, 0})
		}
	}
	// between the limits: deep enough that a compiler (or dumper) that does not count its own depth overflows, shallow
	// enough that the parser's own limit does not refuse the input first
	for _, k := range c03quadKinds {
		if k != "cases" {
			for _, n := range []int{12000, 40000, 90000} {
				deep = append(deep, c03scaleGen{k, n, 0})
			}
		}
	}
	// short units four million deep (4-8 MB of source): every recursion of the parser must be counted
	for _, k := range []string{"not", "neg", "compl", "deref", "ptr-type", "slicetype", "paren", "block"} {
		deep = append(deep, c03scaleGen{k, 1 << 22, 0})
	}
	deep = append(deep, c03scaleGen{"const-chain", 1 << 17, 0}, c03scaleGen{"const-chain", 1 << 22, 0}, c03scaleGen{"chain", 1 << 22, 0})
	if thorough { // 32 MB of source and close to 4 GB of memory each: the size at which the recursive copy of 8adce22 overflowed
		deep = append(deep, c03scaleGen{"const-chain", 1 << 24, 0}, c03scaleGen{"chain", 1 << 24, 0})
	}
	for _, k := range c03recurseKinds {
		ns := []int{0}
		if k == "recurse-counted" || k == "recurse-locals" { // terminating: below, around and beyond any plausible limit
			ns = []int{1000, 5000, 50000, 99000, 100000, 100001, 1 << 17, 1 << 19, 1 << 21}
			if k == "recurse-locals" {
				ns = []int{1000, 5000, 50000, 1 << 17, 1 << 19}
			}
		}
		for _, n := range ns {
			deep = append(deep, c03scaleGen{k, n, 0})
		}
	}
	return c03space{"scale", nflat + len(deep), func(i int) c03case {
		if i >= nflat {
			g := deep[i-nflat]
			return c03case{Gen: &g, Masks: []int{0}}
		}
		g := gens[i/4]
		return c03case{Gen: &g, Masks: []int{[]int{0, 1, 2, 4}[i%4]}}
	}}
}

var c03dirs = []string{"main", "a", "vendor/a", "x/a"}

func c03bodies(dir string) []string {
	pkg := "a"
	if dir == "main" {
		pkg = "main"
	}
	other := "a"
	if pkg == "a" {
		other = "main"
	}
	return []string{
		"package " + pkg + "\n\nimport \"fmt\"\n\nvar V = 1\n\nfunc F() int {\n\treturn V\n}\n\nfunc main() {\n\tfmt.Println(F())\n}\n",
		"var V = 1\n",
		"package other\n\nvar W = 2\n",
		"",
		"// just a comment\n",
		"//go:build goat\n\npackage " + pkg + "\n\nvar G = 3\n",
		"//go:build !goat\n\npackage " + pkg + "\n\nvar N = 4\n",
		"//go:build ((\n\npackage " + pkg + "\n",
		"package " + pkg + "\n\nimport \"" + pkg + "\"\n\nvar S = 5\n",
		"package " + pkg + "\n\nimport \"" + other + "\"\n\nvar O = 6\n\nfunc main() {\n}\n",
		"package " + pkg + "\n\nimport \"missing/pkg\"\n\nvar M = missing.X\n",
		"package " + pkg + "\n\nfunc broken( {\n",
		"package " + pkg + "\n\nvar z = 0\nvar E = 1 / z\n\nfunc main() {\n\tvar m map[string]int\n\tm[\"k\"] = 1\n}\n",
		"package " + pkg + "\n\nvar B = \"\xff\xfe\"\n\nfunc main() {\n\tpanic(B)\n}\n",
		"package " + pkg + "\n\nfunc main() {\n\tmain()\n}\n\nvar F2 = func(a int) int {\n\treturn a\n}\n\n1 + 2\n",
		"//TESTFILE\npackage " + pkg + "\n\nvar T = 1\n\nfunc init() {\n\tpanic(\"a _test.go file ran\")\n}\n", // stored as f<k>_test.go: a directory may hold nothing but such files
	}
}

func c03treeSpace(thorough bool) c03space {
	maxFiles := 2
	if thorough {
		maxFiles = 3
	}
	nb := len(c03bodies("main"))
	slot := len(c03dirs)*nb + 1 // + absent
	nTrees := c03pow(slot, maxFiles)
	const nOpts, nEntry, nFault = 8, 3, 7
	return c03space{"trees", nTrees * nOpts * nEntry * nFault, func(i int) c03case {
		fault := i % nFault
		i /= nFault
		entry := i % nEntry
		i /= nEntry
		opts := i % nOpts
		i /= nOpts
		files := map[string]string{}
		for f := 0; f < maxFiles; f++ {
			s := i % slot
			i /= slot
			if s == slot-1 {
				continue
			}
			dir := c03dirs[s/nb]
			name := fmt.Sprintf("%s/f%d.go", dir, f)
			body := c03bodies(dir)[s%nb]
			if strings.HasPrefix(body, "//TESTFILE") {
				name = fmt.Sprintf("%s/f%d_test.go", dir, f)
			}
			files[name] = body
		}
		c := c03case{Files: files, Opts: opts, Entry: entry, Fault: fault}
		if entry == 0 {
			c.Src = "import \"a\"\nimport \"main\"\na.F()\n"
		}
		return c
	}}
}

// --- executing one case ----------------------------------------------------------------------

var c03prefixRe = regexp.MustCompile(`^error in (tokenize|parse|load|compile|run)`)

type c03faultFS struct {
	fs.FS
	n, at int
}

func (f *c03faultFS) tick(name string) error {
	f.n++
	if f.at > 0 && f.n == f.at {
		return &fs.PathError{Op: "read", Path: name, Err: errors.New("injected I/O error")}
	}
	return nil
}

func (f *c03faultFS) Open(name string) (fs.File, error) {
	if err := f.tick(name); err != nil {
		return nil, err
	}
	return f.FS.Open(name)
}

func (f *c03faultFS) ReadFile(name string) ([]byte, error) {
	if err := f.tick(name); err != nil {
		return nil, err
	}
	return fs.ReadFile(f.FS, name)
}

func (f *c03faultFS) Glob(pattern string) ([]string, error) {
	if err := f.tick(pattern); err != nil {
		return nil, err
	}
	return fs.Glob(f.FS, pattern)
}

func c03options(mask int, sink io.Writer) []goatlang.RunOption {
	var o []goatlang.RunOption
	if mask&1 != 0 {
		o = append(o, goatlang.WithTreeDump(sink))
	}
	if mask&2 != 0 {
		o = append(o, goatlang.WithCodeDump(sink))
	}
	if mask&4 != 0 {
		o = append(o, goatlang.WithEvalImports(map[string]string{}))
	}
	return o
}

// c03exec runs one case under one option mask; returns "" or the violated clause.
func c03exec(c c03case, mask int) string {
	m := goat.New()
	defer m.Close()
	m.Ctx.MaxSteps = 20_000
	m.Ctx.MaxDepth = 200
	if c.Gen != nil {
		m.Ctx.MaxSteps = 3_000_000
		if c.Gen.recursion() {
			m.Ctx.MaxSteps, m.Ctx.MaxDepth = 0, 0
		}
	}
	var sink bytes.Buffer
	var sys fs.FS = fstest.MapFS{}
	if c.Files != nil {
		sys = &c03faultFS{FS: goat.FS(c.Files), at: c.Fault}
	}
	var res goat.Result
	isLoad := false
	switch {
	case c.Files != nil && c.Entry == 1:
		res = m.Load(sys, "main", c03options(mask, &sink)...)
		isLoad = true
	case c.Files != nil && c.Entry == 2:
		res = m.Load(sys, "main/f0.go", c03options(mask, &sink)...)
		isLoad = true
	default:
		res = m.Eval(sys, c.Src, c03options(mask, &sink)...)
	}
	if res.HostPanic != nil && !res.Budget {
		return fmt.Sprintf("a Go panic escaped %s: %v", map[bool]string{true: "Load", false: "Eval"}[isLoad], res.HostPanic)
	}
	if res.Err != nil && !c03prefixRe.MatchString(res.Err.Error()) {
		return "error without a stage prefix: " + firstLine(res.Err.Error())
	}
	// what the input defined
	for _, name := range []string{"main.main", "main.f", "main.x", "main.F", "main.T", "main.F2", "a.F", "main._", "main.nosuch"} {
		var v goatlang.Value
		func() {
			defer func() { recover() }()
			v = m.VM.Get(name)
		}()
		if v.Type() != goatlang.TypeFunc && name != "main.x" && name != "main.nosuch" {
			continue
		}
		for na := 0; na <= 2; na++ {
			if name == "main.nosuch" && na > 0 {
				break
			}
			for nr := -1; nr <= 2; nr++ {
				if name == "main.nosuch" && nr > 0 {
					break
				}
				args := []goatlang.Value{goatlang.Int(1), goatlang.String("s")}[:na]
				var r goat.Result
				if (name == "main.main" || name == "main.nosuch") && na == 0 {
					r = m.Call(name, nr)
				} else {
					r = m.Func(v, nr, args...)
				}
				if r.HostPanic != nil && !r.Budget {
					return fmt.Sprintf("a Go panic escaped Call/Func on %s with %d arguments, %d results: %v", name, na, nr, r.HostPanic)
				}
			}
		}
	}
	// the VM must stay usable: whatever the input did (or failed to do half-way), a later, unrelated evaluation on the
	// same VM returns as well (only that it returns is checked: the input may legitimately have redefined anything)
	if !c03probe {
		return ""
	}
	for _, probe := range []string{"q9z := 1\nq9z + 1", "func q9f(a int) int {\n\tfor i := 0; i < 2; i++ {\n\t\ta += i\n\t}\n\treturn a\n}\nq9f(1)"} {
		r := m.Eval(fstest.MapFS{}, probe)
		if r.HostPanic != nil && !r.Budget {
			return fmt.Sprintf("a Go panic escaped a later Eval on the same VM (%q): %v", probe, r.HostPanic)
		}
		if r.Err != nil && !c03prefixRe.MatchString(r.Err.Error()) {
			return "a later Eval on the same VM failed without a stage prefix: " + firstLine(r.Err.Error())
		}
	}
	return ""
}

func c03check(c c03case) string {
	masks := []int{c.Opts}
	if c.Gen != nil && c.Src == "" {
		c.Src = c.Gen.source()
	}
	if c.Masks != nil {
		masks = c.Masks
	} else if c.Files == nil {
		masks = []int{c.Idx % 8, 7}
		if c.Idx%8 == 7 {
			masks = []int{7, 0}
		}
		if c.Space == "seeds-dev2" && !c03thorough {
			masks = masks[:1] // quick: the nine million two-deviation inputs run under one option subset each (by index), thorough under two
		}
	}
	if c.Space == "loadsrc" && !c03thorough && len(masks) > 1 {
		masks = masks[:1]
	}
	for k, mask := range masks {
		c03probe = k == 0 // the usable-VM probes follow the first run of a case only
		if p := c03exec(c, mask); p != "" {
			return fmt.Sprintf("[options mask %d] %s", mask, p)
		}
	}
	return ""
}

// --- child process ---------------------------------------------------------------------------

var c03thorough, c03probe bool

func c03child(args []string) {
	// args: tier space from to
	if len(args) < 4 {
		os.Exit(3)
	}
	if args[1] != "scale" { // scale inputs nest deeply on purpose: they get Go's own stack limit
		debug.SetMaxStack(64 << 20)
	}
	thorough := args[0] == "thorough"
	c03thorough = thorough
	from, _ := strconv.Atoi(args[2])
	to, _ := strconv.Atoi(args[3])
	var sp *c03space
	for _, s := range c03spaces(thorough) {
		if s.name == args[1] {
			s := s
			sp = &s
		}
	}
	if sp == nil {
		os.Exit(3)
	}
	w := bufio.NewWriter(os.Stdout)
	defer w.Flush()
	for i := from; i < to && i < sp.size; i++ {
		if (i-from)%100 == 0 {
			fmt.Fprintf(w, "AT %d\n", i)
			w.Flush()
		}
		c := sp.gen(i)
		c.Space, c.Idx = sp.name, i
		t0 := time.Now()
		p := c03check(c)
		if os.Getenv("VERIF_C03_TIMES") != "" {
			fmt.Fprintf(w, "TIME %d %v %v\n", i, time.Since(t0).Round(time.Millisecond), c03fileNames(c))
		}
		if p != "" {
			fmt.Fprintf(w, "VIOL %d %s\n", i, strings.ReplaceAll(p, "\n", " "))
			w.Flush()
		}
	}
	fmt.Fprintln(w, "DONE")
}

func init() { C03Child = c03child }

type c03childResult struct {
	viol map[int]string
	done bool
	at   int
	err  error
}

func c03runChild(tier, space string, from, to int, timeout time.Duration) c03childResult {
	ctx, cancel := context.WithTimeout(context.Background(), timeout)
	defer cancel()
	cmd := exec.CommandContext(ctx, os.Args[0], "child", "C03", tier, space, strconv.Itoa(from), strconv.Itoa(to))
	cmd.Env = append(os.Environ(), "GOTRACEBACK=none", "GOMAXPROCS=2")
	var out bytes.Buffer
	cmd.Stdout = &out
	err := cmd.Run()
	res := c03childResult{viol: map[int]string{}, at: from, err: err}
	for _, l := range strings.Split(out.String(), "\n") {
		switch {
		case strings.HasPrefix(l, "VIOL "):
			f := strings.SplitN(l, " ", 3)
			if len(f) == 3 {
				i, _ := strconv.Atoi(f[1])
				res.viol[i] = f[2]
			}
		case strings.HasPrefix(l, "AT "):
			res.at, _ = strconv.Atoi(l[3:])
		case l == "DONE":
			res.done = true
		}
	}
	return res
}

func c03run(r *report.Run) {
	thorough := r.Tier == "thorough"
	r.Rule("bytes: all strings of length <=2 over 256 bytes and length 3 over 48 byte classes; tokens: all strings of length <=2 over a 121-token alphabet and length 3 over a 30-token sharp sub-alphabet (thorough: all); seeds (every string of the repository's test tables + 43 statement-form programs incl. the four known crashers) with 0 and 1 token deviation (delete/replace/insert at every position with every token of the sharp (thorough: full) alphabet) and 2 deviations (all pairs of deletions; for short seeds all pairs of edits over a small alphabet); trees: all file trees of <=2 (3) files over 4 directories x 16 bodies (one of them stored as a _test.go file) x 7 fault positions x 8 option subsets x 3 entry points; each case through Eval/Load, then Call/Func with 0..2 arguments and -1..2 requested results on what it defined (and on a variable and an undefined name), then two unrelated Evals on the same VM (the VM must stay usable); non-trivial = every case (each is a distinct input/configuration)")
	r.Assume("a run that exhausts the instruction/depth budget counts as terminated by the harness (the property excepts non-terminating scripts)", "front-end stages have no budget: a child that does not finish its range within the watchdog is bisected down to the single input, which is then reported", "os.WriteFile/os.ReadFile/time.Sleep are replaced by harmless natives for the enumeration")
	spaces := c03spaces(thorough)
	type job struct {
		sp       c03space
		from, to int
	}
	var jobs []job
	only := os.Getenv("VERIF_C03_SPACES") // development aid: a comma-separated subset of the spaces
	for _, sp := range spaces {
		if only != "" && !strings.Contains(","+only+",", ","+sp.name+",") {
			r.NotExhaustive("VERIF_C03_SPACES set: space " + sp.name + " skipped")
			continue
		}
		r.Set("space_"+sp.name, sp.size)
		chunk := 20000
		switch sp.name {
		case "trees", "types":
			chunk = 5000
		case "scale":
			chunk = 24
		}
		for a := 0; a < sp.size; a += chunk {
			b := a + chunk
			if b > sp.size {
				b = sp.size
			}
			jobs = append(jobs, job{sp, a, b})
		}
	}
	var crashes int
	var mu sync.Mutex
	var handle func(j job, depth int)
	handle = func(j job, depth int) {
		if r.Expired() {
			return
		}
		mu.Lock()
		tooMany := crashes >= 4 || r.Violations() >= 200
		mu.Unlock()
		if tooMany {
			r.NotExhaustive("stopped early: enough violations found")
			return
		}
		// a chunk normally takes seconds; a hang must be isolated within the run's deadline, so the watchdogs are short
		// (the scale inputs are the slow ones: seconds each)
		timeout := 150 * time.Second
		if depth > 0 {
			timeout = 45 * time.Second
		}
		if j.to-j.from == 1 {
			timeout = 20 * time.Second
		}
		if j.sp.name == "scale" {
			timeout = 5 * time.Minute
			if j.to-j.from == 1 {
				timeout = 2 * time.Minute
			}
		}
		res := c03runChild(r.Tier, j.sp.name, j.from, j.to, timeout)
		for i, p := range res.viol {
			c := j.sp.gen(i)
			c.Space, c.Idx = j.sp.name, i
			r.Fail(&report.Case{Kind: "input", Key: fmt.Sprintf("%s #%d: %s %v", j.sp.name, i, strconv.Quote(c.Src), c03fileNames(c)), Input: c, Files: c.Files, Want: "returns; no panic escapes; stage-prefixed error", Got: p})
		}
		if res.done {
			r.Eval(j.to - j.from)
			r.NontrivialN(j.to - j.from)
			return
		}
		// the child died or stalled somewhere in [res.at, to)
		if j.to-j.from == 1 {
			c := j.sp.gen(j.from)
			c.Space, c.Idx = j.sp.name, j.from
			mu.Lock()
			crashes++
			mu.Unlock()
			r.Eval(1)
			r.Fail(&report.Case{Kind: "crash", Key: fmt.Sprintf("%s #%d: %s %v", j.sp.name, j.from, strconv.Quote(c.Src), c03fileNames(c)), Input: c, Files: c.Files, Want: "the host process survives and the call returns", Got: fmt.Sprintf("child process died or did not finish within %v (%v)", timeout, res.err)})
			return
		}
		r.Eval(res.at - j.from)
		// the culprit is within 100 inputs of res.at (progress is reported every 100): that window is split, what
		// follows it is a job of its own
		if j.to-res.at > 128 {
			handle(job{j.sp, res.at, res.at + 128}, depth+1)
			handle(job{j.sp, res.at + 128, j.to}, depth+1)
			return
		}
		lo, hi := res.at, j.to
		if hi-lo <= 16 {
			for i := lo; i < hi; i++ {
				handle(job{j.sp, i, i + 1}, depth+1)
			}
			return
		}
		step := (hi - lo + 7) / 8
		for a := lo; a < hi; a += step {
			b := a + step
			if b > hi {
				b = hi
			}
			handle(job{j.sp, a, b}, depth+1)
		}
	}
	save := par.Workers
	par.Workers = 8 // children run with GOMAXPROCS=2
	par.Do(len(jobs), func(k int) { handle(jobs[k], 0) })
	par.Workers = save
	for _, sp := range spaces[:3] {
		c := sp.gen(sp.size / 3)
		r.Sample(map[string]any{"space": sp.name, "index": sp.size / 3, "source": c.Src})
	}
	tc := spaces[len(spaces)-1].gen(spaces[len(spaces)-1].size / 2)
	r.Sample(map[string]any{"space": "trees", "files": c03fileNames(tc), "options_mask": tc.Opts, "entry": tc.Entry, "fs_fault_at_call": tc.Fault})
	if r.Expired() {
		r.NotExhaustive("internal deadline reached")
	}
}

func c03fileNames(c c03case) []string {
	var n []string
	if c.Gen != nil {
		return []string{fmt.Sprintf("kind=%s n=%d tail=%d masks=%v", c.Gen.Kind, c.Gen.N, c.Gen.Tail, c.Masks)}
	}
	for k := range c.Files {
		n = append(n, k)
	}
	sort.Strings(n)
	return n
}

func c03rerun(c *report.Case) (bool, string) {
	var in c03case
	if !remarshal(c.Input, &in) {
		return false, "bad input"
	}
	if c.Kind == "crash" {
		// re-run in a child: it must die or stall again
		tier := "quick"
		res := c03runChild(tier, in.Space, in.Idx, in.Idx+1, 60*time.Second)
		if !res.done {
			return true, "child died or stalled again"
		}
		res = c03runChild("thorough", in.Space, in.Idx, in.Idx+1, 60*time.Second)
		return !res.done, fmt.Sprint(res.err)
	}
	p := c03check(in)
	return p != "", p
}

func init() { register("C03", c03run, c03rerun) }
