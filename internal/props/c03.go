package props

import (
	"bufio"
	"bytes"
	"context"
	"errors"
	"fmt"
	"go/scanner"
	"go/token"
	"io"
	"io/fs"
	"os"
	"os/exec"
	"regexp"
	"runtime/debug"
	"sort"
	"strconv"
	"strings"
	"sync"
	"testing/fstest"
	"time"

	"github.com/philhassey/goatlang"

	"verif/internal/goat"
	"verif/internal/par"
	"verif/internal/report"
)

// C03 — no input can take the embedding host down.
//
// Spaces (all index-addressable, enumerated completely, explored in supervised
// child processes so that a fatal error or a hang is isolated by bisection):
//   bytes : all byte strings of length <=2 over all 256 bytes, length 3 over 48 byte classes
//   tokens: all token strings of length <=2 over the token alphabet T, length 3 over a sharp
//           sub-alphabet (thorough: over all of T)
//   seeds : every test-table input and one valid program per statement form with 0, 1 and 2
//           token-level deviations (delete / replace / insert, every position, every token)
//   trees : all in-memory file trees of <=2 (3) files over 4 directories x 14 file bodies,
//           with 0 or 1 injected fs.FS failure, x 8 option subsets x 3 entry points
// Oracle (an invariant): the call returns, no panic escapes, errors of Eval/Load start with
// the failing stage, then Call/Func on what the input defined also return.

var c03T = []string{":=", "=", "+=", "-=", "*=", "/=", "%=", "|=", "^=", "&=", "<<=", ">>=", "||", "&&", "!", "<", ">", "<=", ">=", "==", "!=", "|", "^", "&", "<<", ">>", "+", "-", "*", "/", "%", "++", "--", ".", "...", "(", "[", "{", "[]", "map", ",", "func", "return", "if", "for", "package", "import", "const", "var", "type", "switch", "$", "make", "true", "false", "nil", "error", "range", "float64", "any", "int", "int32", "byte", "uint8", "rune", "uint32", "uint", "int8", "int16", "int64", "uint16", "uint64", "bool", "string", "continue", "break", "struct", "interface", "case", "default", "iota", ";", ":", "}", ")", "]", "else", "chan", "go", "<-", "->",
	"0", "1", "42", "0x1f", "08", "1.5", `"s"`, "'s'", `'\n'`, "x", "T", "main", "_", "f", "\n", "len", "append", "delete", "copy", "panic", "println", "fmt", "`r`", "&^", "~", "#", "?", "\\", "@", `"\400"`, `'\400'`, "0x", "1e", "09", "import", "`", "100000", "4294967296", "99999999999999999999"}

var c03sharp = []string{"(", ")", "{", "}", "[", "]", "[]", ",", ";", ":", ".", "...", "=", ":=", "func", "return", "if", "for", "range", "switch", "case", "default", "type", "struct", "var", "x", "1", "+", "f", "\n", "100000", "-"}

var c03bytes3 = []byte{0, '\t', '\n', ' ', '!', '"', '#', '$', '%', '&', '\'', '(', ')', '*', '+', ',', '-', '.', '/', '0', '9', ':', ';', '<', '=', '>', '?', '@', 'A', '[', '\\', ']', '^', '_', '`', 'a', 'e', 'x', '{', '|', '}', '~', 0x7f, 0x80, 0xc3, 0xa9, 0xff, 'f'}

var c03formSeeds = []string{
	`func f() int { }; f()`, `x /;`, `a := []int{1}; b := []int{2}; n := copy(a,b)`, `import "a"`, ``,
	`x := 1`, `var x int`, `var x, y = 1, 2`, `const c = 1`, `const ( a = iota; b )`, `x := 1; x++`, `x := 1; x += 2`, `x, y := 1, 2; x, y = y, x`,
	`if true { 1 }`, `if x := 1; x > 0 { } else if x < 0 { } else { }`, `for i := 0; i < 2; i++ { }`, `for { break }`, `x := []int{1}; for i, v := range x { _ = i; _ = v }`,
	`switch 1 { case 1: default: }`, `switch { case true: break }`, `func f(a int, b ...int) (int, int) { return a, len(b) }; f(1, 2)`, `type T struct { n int }; func (t *T) M() int { return t.n }; t := &T{n: 1}; t.M()`,
	`type I interface { M() int }`, `m := map[string]int{"a": 1}; v, ok := m["a"]; delete(m, "a"); v; ok`, `s := "héllo"; s[1:2]; len(s)`, `x := make([]int, 2); x = append(x, 1); x[0:1]`,
	`f := func(a int) int { return a }; f(1)`, `import "fmt"; fmt.Println(1)`, `import ( "math"; s "strings" ); math.Sqrt(4); s.Repeat("a", 2)`, `var f func() int; f()`, `panic("x")`,
	`x := 1 << 3 | 2 &^ 1`, `!true || false && 1 < 2`, `type M []float64; m := M{1}; m[0]`, `type E struct{}; var e *E; e == nil`, `x := 'a'; y := "a" + "b"; z := 1.5e3; x; y; z`,
	`func f() { f() }; f()`, `m := map[string]any{}; m["self"] = m; println(m)`, `s := []any{nil}; s[0] = s; println(s); m := map[int]any{1: s}; s[0] = m; println(m)`, `type N struct { p any }; n := &N{}; n.p = n; println(n); l := []any{n}; n.p = l; println(l)`, `func f() int { x := []int{1, 2}; x[1] = 5; m := map[int]int{1: 2}; m[1] = 3; return x[0] + m[1] }; f()`, `type T struct { n int }; func f() int { t := &T{n: 1}; t.n = 2; t.n++; return t.n }; f()`, "import (\nx \"a\"\n)", `import "fmt"; import f "fmt"; f.Println(1)`, `import x "\400"`, `for { }`, `x := []int{}; x[0]`, `var m map[string]int; m["a"] = 1`, `1 / 0`, `$`, `$ 1`,
}

type c03case struct {
	Space string            `json:"space"`
	Idx   int               `json:"idx"`
	Src   string            `json:"src"`
	Files map[string]string `json:"files,omitempty"`
	Opts  int               `json:"opts"`
	Entry int               `json:"entry"` // trees: 0 Eval of `import "a"`-style source, 1 Load("main"), 2 Load("main/f.go")
	Fault int               `json:"fault"` // trees: 0 none, k>0: the k-th fs call fails
}

// --- seeds ---------------------------------------------------------------------------------

type c03seedSet struct {
	toks  [][]string
	cum1  []int // cumulative count of 0+1-deviation variants with the given alphabet
	alpha []string
}

var (
	c03seedsOnce sync.Once
	c03seedToks  [][]string
)

func c03tokenize(src string) []string {
	var s scanner.Scanner
	fset := token.NewFileSet()
	f := fset.AddFile("", fset.Base(), len(src))
	s.Init(f, []byte(src), func(token.Position, string) {}, 0)
	var out []string
	for {
		_, tok, lit := s.Scan()
		if tok == token.EOF {
			break
		}
		switch {
		case tok == token.SEMICOLON && lit == "\n":
			out = append(out, "\n")
		case lit != "":
			out = append(out, lit)
		default:
			out = append(out, tok.String())
		}
		if len(out) > 400 {
			break
		}
	}
	return out
}

func c03loadSeeds() [][]string {
	c03seedsOnce.Do(func() {
		seen := map[string]bool{}
		add := func(s string) {
			t := c03tokenize(s)
			k := strings.Join(t, "\x00")
			if !seen[k] && len(t) <= 120 {
				seen[k] = true
				c03seedToks = append(c03seedToks, t)
			}
		}
		for _, s := range c03formSeeds {
			add(s)
		}
		if h, err := harvest(); err == nil {
			for _, s := range h.Strings {
				add(s)
			}
			for _, t := range h.Trees {
				var names []string
				for n := range t {
					names = append(names, n)
				}
				sort.Strings(names)
				for _, n := range names {
					add(t[n])
				}
			}
		}
	})
	return c03seedToks
}

func c03join(t []string) string { return strings.Join(t, " ") }

// variants of a seed with exactly one deviation over alphabet A: index v in [0, n + n*|A| + (n+1)*|A|)
func c03dev1count(n, a int) int { return n + n*a + (n+1)*a }

func c03dev1(t []string, alpha []string, v int) []string {
	n, a := len(t), len(alpha)
	out := make([]string, 0, n+1)
	switch {
	case v < n: // delete token v
		out = append(out, t[:v]...)
		out = append(out, t[v+1:]...)
	case v < n+n*a: // replace
		v -= n
		i, k := v/a, v%a
		out = append(out, t[:i]...)
		out = append(out, alpha[k])
		out = append(out, t[i+1:]...)
	default: // insert
		v -= n + n*a
		i, k := v/a, v%a
		out = append(out, t[:i]...)
		out = append(out, alpha[k])
		out = append(out, t[i:]...)
	}
	return out
}

// --- spaces ----------------------------------------------------------------------------------

type c03space struct {
	name string
	size int
	gen  func(idx int) c03case
}

func c03pow(b, e int) int {
	r := 1
	for i := 0; i < e; i++ {
		r *= b
	}
	return r
}

func c03spaces(thorough bool) []c03space {
	var sp []c03space
	// bytes
	nb := len(c03bytes3)
	sp = append(sp, c03space{"bytes", 1 + 256 + 65536 + nb*nb*nb, func(i int) c03case {
		var b []byte
		switch {
		case i == 0:
		case i < 257:
			b = []byte{byte(i - 1)}
		case i < 257+65536:
			i -= 257
			b = []byte{byte(i >> 8), byte(i)}
		default:
			i -= 257 + 65536
			b = []byte{c03bytes3[i/(nb*nb)], c03bytes3[i/nb%nb], c03bytes3[i%nb]}
		}
		return c03case{Src: string(b)}
	}})
	// tokens
	nt, ns := len(c03T), len(c03sharp)
	a3 := c03sharp
	if thorough {
		a3 = c03T
	}
	n3 := len(a3)
	sp = append(sp, c03space{"tokens", nt + nt*nt + n3*n3*n3, func(i int) c03case {
		switch {
		case i < nt:
			return c03case{Src: c03T[i]}
		case i < nt+nt*nt:
			i -= nt
			return c03case{Src: c03T[i/nt] + " " + c03T[i%nt]}
		}
		i -= nt + nt*nt
		return c03case{Src: a3[i/(n3*n3)] + " " + a3[i/n3%n3] + " " + a3[i%n3]}
	}})
	_ = ns
	// seeds: 0 and 1 deviation
	seeds := c03loadSeeds()
	alpha := c03sharp
	if thorough {
		alpha = c03T
	}
	cum := make([]int, len(seeds)+1)
	for i, t := range seeds {
		cum[i+1] = cum[i] + 1 + c03dev1count(len(t), len(alpha))
	}
	sp = append(sp, c03space{"seeds-dev<=1", cum[len(seeds)], func(i int) c03case {
		s := sort.Search(len(seeds), func(k int) bool { return cum[k+1] > i })
		v := i - cum[s]
		if v == 0 {
			return c03case{Src: c03join(seeds[s])}
		}
		return c03case{Src: c03join(c03dev1(seeds[s], alpha, v-1))}
	}})
	// seeds: 2 deviations = all pairs of deletions; for short seeds all pairs of edits over a small alphabet
	small := []string{"(", ")", "{", "}", ",", ";", "=", "func", "x", "1", "[", "]"}
	maxShort := 5
	if thorough {
		small = c03sharp
		maxShort = 7
	}
	cum2 := make([]int, len(seeds)+1)
	for i, t := range seeds {
		n := len(t)
		c := n * (n - 1) / 2
		if n <= maxShort {
			d1 := c03dev1count(n, len(small))
			// second deviation applied to the result of the first: lengths n-1, n, n+1; bounded above by the largest
			c += d1 * c03dev1count(n+1, len(small))
		}
		cum2[i+1] = cum2[i] + c
	}
	sp = append(sp, c03space{"seeds-dev2", cum2[len(seeds)], func(i int) c03case {
		s := sort.Search(len(seeds), func(k int) bool { return cum2[k+1] > i })
		v := i - cum2[s]
		t := seeds[s]
		n := len(t)
		if v < n*(n-1)/2 {
			// pair (a<b) of deletions
			a := 0
			for v >= n-1-a {
				v -= n - 1 - a
				a++
			}
			b := a + 1 + v
			out := make([]string, 0, n)
			for k, x := range t {
				if k != a && k != b {
					out = append(out, x)
				}
			}
			return c03case{Src: c03join(out)}
		}
		v -= n * (n - 1) / 2
		per := c03dev1count(n+1, len(small))
		first := c03dev1(t, small, v/per)
		second := v % per
		if second >= c03dev1count(len(first), len(small)) {
			return c03case{Src: c03join(first)} // padding index (shorter intermediate): the 1-deviation variant again
		}
		return c03case{Src: c03join(c03dev1(first, small, second))}
	}})
	// trees
	sp = append(sp, c03treeSpace(thorough))
	return sp
}

var c03dirs = []string{"main", "a", "vendor/a", "x/a"}

func c03bodies(dir string) []string {
	pkg := "a"
	if dir == "main" {
		pkg = "main"
	}
	other := "a"
	if pkg == "a" {
		other = "main"
	}
	return []string{
		"package " + pkg + "\n\nimport \"fmt\"\n\nvar V = 1\n\nfunc F() int {\n\treturn V\n}\n\nfunc main() {\n\tfmt.Println(F())\n}\n",
		"var V = 1\n",
		"package other\n\nvar W = 2\n",
		"",
		"// just a comment\n",
		"//go:build goat\n\npackage " + pkg + "\n\nvar G = 3\n",
		"//go:build !goat\n\npackage " + pkg + "\n\nvar N = 4\n",
		"//go:build ((\n\npackage " + pkg + "\n",
		"package " + pkg + "\n\nimport \"" + pkg + "\"\n\nvar S = 5\n",
		"package " + pkg + "\n\nimport \"" + other + "\"\n\nvar O = 6\n\nfunc main() {\n}\n",
		"package " + pkg + "\n\nimport \"missing/pkg\"\n\nvar M = missing.X\n",
		"package " + pkg + "\n\nfunc broken( {\n",
		"package " + pkg + "\n\nvar z = 0\nvar E = 1 / z\n\nfunc main() {\n\tvar m map[string]int\n\tm[\"k\"] = 1\n}\n",
		"package " + pkg + "\n\nvar B = \"\xff\xfe\"\n\nfunc main() {\n\tpanic(B)\n}\n",
		"package " + pkg + "\n\nfunc main() {\n\tmain()\n}\n\nvar F2 = func(a int) int {\n\treturn a\n}\n\n1 + 2\n",
	}
}

func c03treeSpace(thorough bool) c03space {
	maxFiles := 2
	if thorough {
		maxFiles = 3
	}
	nb := len(c03bodies("main"))
	slot := len(c03dirs)*nb + 1 // + absent
	nTrees := c03pow(slot, maxFiles)
	const nOpts, nEntry, nFault = 8, 3, 7
	return c03space{"trees", nTrees * nOpts * nEntry * nFault, func(i int) c03case {
		fault := i % nFault
		i /= nFault
		entry := i % nEntry
		i /= nEntry
		opts := i % nOpts
		i /= nOpts
		files := map[string]string{}
		for f := 0; f < maxFiles; f++ {
			s := i % slot
			i /= slot
			if s == slot-1 {
				continue
			}
			dir := c03dirs[s/nb]
			name := fmt.Sprintf("%s/f%d.go", dir, f)
			files[name] = c03bodies(dir)[s%nb]
		}
		c := c03case{Files: files, Opts: opts, Entry: entry, Fault: fault}
		if entry == 0 {
			c.Src = "import \"a\"\nimport \"main\"\na.F()\n"
		}
		return c
	}}
}

// --- executing one case ----------------------------------------------------------------------

var c03prefixRe = regexp.MustCompile(`^error in (tokenize|parse|load|compile|run)`)

type c03faultFS struct {
	fs.FS
	n, at int
}

func (f *c03faultFS) tick(name string) error {
	f.n++
	if f.at > 0 && f.n == f.at {
		return &fs.PathError{Op: "read", Path: name, Err: errors.New("injected I/O error")}
	}
	return nil
}

func (f *c03faultFS) Open(name string) (fs.File, error) {
	if err := f.tick(name); err != nil {
		return nil, err
	}
	return f.FS.Open(name)
}

func (f *c03faultFS) ReadFile(name string) ([]byte, error) {
	if err := f.tick(name); err != nil {
		return nil, err
	}
	return fs.ReadFile(f.FS, name)
}

func (f *c03faultFS) Glob(pattern string) ([]string, error) {
	if err := f.tick(pattern); err != nil {
		return nil, err
	}
	return fs.Glob(f.FS, pattern)
}

func c03options(mask int, sink io.Writer) []goatlang.RunOption {
	var o []goatlang.RunOption
	if mask&1 != 0 {
		o = append(o, goatlang.WithTreeDump(sink))
	}
	if mask&2 != 0 {
		o = append(o, goatlang.WithCodeDump(sink))
	}
	if mask&4 != 0 {
		o = append(o, goatlang.WithEvalImports(map[string]string{}))
	}
	return o
}

// c03exec runs one case under one option mask; returns "" or the violated clause.
func c03exec(c c03case, mask int) string {
	m := goat.New()
	defer m.Close()
	m.Ctx.MaxSteps = 20_000
	m.Ctx.MaxDepth = 200
	var sink bytes.Buffer
	var sys fs.FS = fstest.MapFS{}
	if c.Files != nil {
		sys = &c03faultFS{FS: goat.FS(c.Files), at: c.Fault}
	}
	var res goat.Result
	isLoad := false
	switch {
	case c.Files != nil && c.Entry == 1:
		res = m.Load(sys, "main", c03options(mask, &sink)...)
		isLoad = true
	case c.Files != nil && c.Entry == 2:
		res = m.Load(sys, "main/f0.go", c03options(mask, &sink)...)
		isLoad = true
	default:
		res = m.Eval(sys, c.Src, c03options(mask, &sink)...)
	}
	if res.HostPanic != nil && !res.Budget {
		return fmt.Sprintf("a Go panic escaped %s: %v", map[bool]string{true: "Load", false: "Eval"}[isLoad], res.HostPanic)
	}
	if res.Err != nil && !c03prefixRe.MatchString(res.Err.Error()) {
		return "error without a stage prefix: " + firstLine(res.Err.Error())
	}
	// what the input defined
	for _, name := range []string{"main.main", "main.f", "main.x", "main.F", "main.T", "main.F2", "a.F", "main._"} {
		var v goatlang.Value
		func() {
			defer func() { recover() }()
			v = m.VM.Get(name)
		}()
		if v.Type() != goatlang.TypeFunc && name != "main.x" {
			continue
		}
		for na := 0; na <= 2; na++ {
			for nr := 0; nr <= 2; nr++ {
				args := []goatlang.Value{goatlang.Int(1), goatlang.String("s")}[:na]
				var r goat.Result
				if name == "main.main" && na == 0 {
					r = m.Call(name, nr)
				} else {
					r = m.Func(v, nr, args...)
				}
				if r.HostPanic != nil && !r.Budget {
					return fmt.Sprintf("a Go panic escaped Call/Func on %s with %d arguments, %d results: %v", name, na, nr, r.HostPanic)
				}
			}
		}
	}
	return ""
}

func c03check(c c03case) string {
	masks := []int{c.Opts}
	if c.Files == nil {
		masks = []int{c.Idx % 8, 7}
		if c.Idx%8 == 7 {
			masks = []int{7, 0}
		}
	}
	for _, mask := range masks {
		if p := c03exec(c, mask); p != "" {
			return fmt.Sprintf("[options mask %d] %s", mask, p)
		}
	}
	return ""
}

// --- child process ---------------------------------------------------------------------------

func c03child(args []string) {
	// args: tier space from to
	debug.SetMaxStack(64 << 20)
	if len(args) < 4 {
		os.Exit(3)
	}
	thorough := args[0] == "thorough"
	from, _ := strconv.Atoi(args[2])
	to, _ := strconv.Atoi(args[3])
	var sp *c03space
	for _, s := range c03spaces(thorough) {
		if s.name == args[1] {
			s := s
			sp = &s
		}
	}
	if sp == nil {
		os.Exit(3)
	}
	w := bufio.NewWriter(os.Stdout)
	defer w.Flush()
	for i := from; i < to && i < sp.size; i++ {
		if (i-from)%2000 == 0 {
			fmt.Fprintf(w, "AT %d\n", i)
			w.Flush()
		}
		c := sp.gen(i)
		c.Space, c.Idx = sp.name, i
		if p := c03check(c); p != "" {
			fmt.Fprintf(w, "VIOL %d %s\n", i, strings.ReplaceAll(p, "\n", " "))
			w.Flush()
		}
	}
	fmt.Fprintln(w, "DONE")
}

func init() { C03Child = c03child }

type c03childResult struct {
	viol map[int]string
	done bool
	at   int
	err  error
}

func c03runChild(tier, space string, from, to int, timeout time.Duration) c03childResult {
	ctx, cancel := context.WithTimeout(context.Background(), timeout)
	defer cancel()
	cmd := exec.CommandContext(ctx, os.Args[0], "child", "C03", tier, space, strconv.Itoa(from), strconv.Itoa(to))
	cmd.Env = append(os.Environ(), "GOTRACEBACK=none", "GOMAXPROCS=2")
	var out bytes.Buffer
	cmd.Stdout = &out
	err := cmd.Run()
	res := c03childResult{viol: map[int]string{}, at: from, err: err}
	for _, l := range strings.Split(out.String(), "\n") {
		switch {
		case strings.HasPrefix(l, "VIOL "):
			f := strings.SplitN(l, " ", 3)
			if len(f) == 3 {
				i, _ := strconv.Atoi(f[1])
				res.viol[i] = f[2]
			}
		case strings.HasPrefix(l, "AT "):
			res.at, _ = strconv.Atoi(l[3:])
		case l == "DONE":
			res.done = true
		}
	}
	return res
}

func c03run(r *report.Run) {
	thorough := r.Tier == "thorough"
	r.Rule("bytes: all strings of length <=2 over 256 bytes and length 3 over 48 byte classes; tokens: all strings of length <=2 over a 121-token alphabet and length 3 over a 30-token sharp sub-alphabet (thorough: all); seeds (every string of the repository's test tables + 43 statement-form programs incl. the four known crashers) with 0 and 1 token deviation (delete/replace/insert at every position with every token of the sharp (thorough: full) alphabet) and 2 deviations (all pairs of deletions; for short seeds all pairs of edits over a small alphabet); trees: all file trees of <=2 (3) files over 4 directories x 15 bodies x 7 fault positions x 8 option subsets x 3 entry points; each case through Eval/Load and then Call/Func with 0..2 arguments and 0..2 requested results on what it defined; non-trivial = every case (each is a distinct input/configuration)")
	r.Assume("a run that exhausts the instruction/depth budget counts as terminated by the harness (the property excepts non-terminating scripts)", "front-end stages have no budget: a child that does not finish its range within the watchdog is bisected down to the single input, which is then reported", "os.WriteFile/os.ReadFile/time.Sleep are replaced by harmless natives for the enumeration")
	spaces := c03spaces(thorough)
	type job struct {
		sp       c03space
		from, to int
	}
	var jobs []job
	for _, sp := range spaces {
		r.Set("space_"+sp.name, sp.size)
		chunk := 20000
		if sp.name == "trees" {
			chunk = 5000
		}
		for a := 0; a < sp.size; a += chunk {
			b := a + chunk
			if b > sp.size {
				b = sp.size
			}
			jobs = append(jobs, job{sp, a, b})
		}
	}
	var crashes int
	var mu sync.Mutex
	var handle func(j job, depth int)
	handle = func(j job, depth int) {
		if r.Expired() {
			return
		}
		mu.Lock()
		tooMany := crashes >= 10 || r.Violations() >= 200
		mu.Unlock()
		if tooMany {
			r.NotExhaustive("stopped early: enough violations found")
			return
		}
		timeout := 10 * time.Minute
		if j.to-j.from == 1 {
			timeout = 60 * time.Second
		}
		res := c03runChild(r.Tier, j.sp.name, j.from, j.to, timeout)
		for i, p := range res.viol {
			c := j.sp.gen(i)
			c.Space, c.Idx = j.sp.name, i
			r.Fail(&report.Case{Kind: "input", Key: fmt.Sprintf("%s #%d: %s %v", j.sp.name, i, strconv.Quote(c.Src), c03fileNames(c)), Input: c, Files: c.Files, Want: "returns; no panic escapes; stage-prefixed error", Got: p})
		}
		if res.done {
			r.Eval(j.to - j.from)
			r.NontrivialN(j.to - j.from)
			return
		}
		// the child died or stalled somewhere in [res.at, to)
		if j.to-j.from == 1 {
			c := j.sp.gen(j.from)
			c.Space, c.Idx = j.sp.name, j.from
			mu.Lock()
			crashes++
			mu.Unlock()
			r.Eval(1)
			r.Fail(&report.Case{Kind: "crash", Key: fmt.Sprintf("%s #%d: %s %v", j.sp.name, j.from, strconv.Quote(c.Src), c03fileNames(c)), Input: c, Files: c.Files, Want: "the host process survives and the call returns", Got: fmt.Sprintf("child process died or did not finish within %v (%v)", timeout, res.err)})
			return
		}
		r.Eval(res.at - j.from)
		// split the remainder [res.at, to)
		lo, hi := res.at, j.to
		if hi-lo <= 16 {
			for i := lo; i < hi; i++ {
				handle(job{j.sp, i, i + 1}, depth+1)
			}
			return
		}
		step := (hi - lo + 7) / 8
		for a := lo; a < hi; a += step {
			b := a + step
			if b > hi {
				b = hi
			}
			handle(job{j.sp, a, b}, depth+1)
		}
	}
	save := par.Workers
	par.Workers = 8 // children run with GOMAXPROCS=2
	par.Do(len(jobs), func(k int) { handle(jobs[k], 0) })
	par.Workers = save
	for _, sp := range spaces[:3] {
		c := sp.gen(sp.size / 3)
		r.Sample(map[string]any{"space": sp.name, "index": sp.size / 3, "source": c.Src})
	}
	tc := spaces[len(spaces)-1].gen(spaces[len(spaces)-1].size / 2)
	r.Sample(map[string]any{"space": "trees", "files": c03fileNames(tc), "options_mask": tc.Opts, "entry": tc.Entry, "fs_fault_at_call": tc.Fault})
	if r.Expired() {
		r.NotExhaustive("internal deadline reached")
	}
}

func c03fileNames(c c03case) []string {
	var n []string
	for k := range c.Files {
		n = append(n, k)
	}
	sort.Strings(n)
	return n
}

func c03rerun(c *report.Case) (bool, string) {
	var in c03case
	if !remarshal(c.Input, &in) {
		return false, "bad input"
	}
	if c.Kind == "crash" {
		// re-run in a child: it must die or stall again
		tier := "quick"
		res := c03runChild(tier, in.Space, in.Idx, in.Idx+1, 60*time.Second)
		if !res.done {
			return true, "child died or stalled again"
		}
		res = c03runChild("thorough", in.Space, in.Idx, in.Idx+1, 60*time.Second)
		return !res.done, fmt.Sprint(res.err)
	}
	p := c03check(in)
	return p != "", p
}

func init() { register("C03", c03run, c03rerun) }
