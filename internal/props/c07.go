package props

import (
	"bytes"
	"fmt"
	"go/ast"
	"go/parser"
	"go/token"
	"regexp"
	"strconv"
	"strings"

	"github.com/philhassey/goatlang"

	"verif/internal/goat"
	"verif/internal/par"
	"verif/internal/report"
)

// C07 — statements are stack-neutral and call frames are isolated on every path.
//
// E3: explicit-state reachability over compiled bytecode.  The code dump of every corpus
// program (optimizer on and off) is parsed; from every function entry ALL paths are explored
// over abstract states (function, pc, operand-stack depth above the locals) with an opcode
// table read off do.go; invariants I1-I5, I7, I8 are checked in every state.  The table is
// bound to the implementation by a conformance replay: every program is also executed with
// the trace hook and every concrete step must agree with the abstract depth at its pc.

type c7ins struct {
	fn   string
	line int
	op   string
	args []string
}

var c7lineRe = regexp.MustCompile(`^(?:(\S+)\(\.\.\.\) )?(\S*):(\d+):(\d+): ([A-Z]+)(?: (.*))?$`)

func c7parseDump(dump string) ([]c7ins, error) {
	var out []c7ins
	for _, l := range strings.Split(strings.TrimRight(dump, "\n"), "\n") {
		if l == "" {
			continue
		}
		m := c7lineRe.FindStringSubmatch(l)
		if m == nil {
			return nil, fmt.Errorf("unparsable dump line %q", l)
		}
		ln, _ := strconv.Atoi(m[3])
		in := c7ins{fn: m[1], line: ln, op: m[5]}
		if m[6] != "" {
			in.args = strings.Fields(m[6])
		}
		out = append(out, in)
	}
	return out, nil
}

func c7int(s string) int {
	s = strings.TrimPrefix(s, "$")
	n, _ := strconv.Atoi(s)
	return n
}

func c7pair(s string) (int, int) {
	p := strings.SplitN(s, ":", 2)
	if len(p) != 2 {
		return 0, 0
	}
	return c7int(p[0]), c7int(p[1])
}

// effect of one instruction: pops, pushes, and its successors relative to pc (next = fall through)
type c7eff struct {
	pop, push int
	next      bool
	jumps     []int // absolute targets within the function body
	jumpKeeps bool  // AND/OR: the jumping edge does not pop
	terminal  bool
	retN      int
	slots     []int // local slots touched
	bad       string
}

func c7effect(in c7ins, pc int) c7eff {
	a := func(i int) int {
		if i < len(in.args) {
			return c7int(in.args[i])
		}
		return 0
	}
	e := c7eff{next: true}
	switch in.op {
	case "PUSH", "GLOBALREF", "ZERO", "GLOBALGET", "CONST":
		e.push = 1
	case "POP", "GLOBALSET", "GLOBALFUNC", "GLOBALSTRUCT":
		e.pop = 1
	case "ADD", "SUB", "MUL", "DIV", "MOD", "LTE", "GTE", "NEQ", "BITAND", "BITOR", "BITLSH", "BITRSH", "BITXOR", "EQ", "LT", "GT", "GET":
		e.pop, e.push = 2, 1
	case "INCDEC", "CONVERT", "CAST", "NEGATE", "BITCOMPLEMENT", "NOT", "LEN", "GETATTR", "MAKE":
		e.pop, e.push = 1, 1
	case "LOCALINCDEC", "LOCALZERO":
		e.slots = []int{a(0)}
	case "GLOBALZERO", "PASS":
	case "AND", "OR":
		e.pop = 1
		e.jumps = []int{pc + a(0) + 1}
		e.jumpKeeps = true
	case "CALL", "CALLVARIADIC":
		e.pop, e.push = a(0)+1, a(1)
	case "LOCALGET":
		e.push = 1
		e.slots = []int{a(0)}
	case "LOCALSET":
		e.pop = 1
		e.slots = []int{a(0)}
	case "RETURN":
		e.terminal, e.next, e.retN = true, false, a(0)
	case "JUMPFALSE", "JUMPTRUE":
		e.pop = 1
		e.jumps = []int{pc + a(0) + 1}
	case "JUMP":
		e.next = false
		e.jumps = []int{pc + a(0) + 1}
	case "GETOK":
		e.pop, e.push = 2, 2
	case "SET":
		e.pop = 3
	case "DELETE", "SETMETHOD", "SETATTR":
		e.pop = 2
	case "COPY":
		e.pop = 2
		if len(in.args) > 0 { // "COPY 1": the element count is pushed (the call's value is used)
			e.push = a(0)
		}
	case "SLICE":
		e.pop, e.push = 3, 1
	case "FASTGET", "FASTGETINT", "FASTGETATTR":
		e.push = 1
		e.slots = []int{a(0)}
	case "FASTSET", "FASTSETINT", "FASTSETATTR":
		e.pop = 1
		e.slots = []int{a(0)}
	case "FASTCALL":
		e.pop, e.push = a(1), a(2)
	case "FASTCALLATTR":
		c1, c2 := c7pair(in.args[2])
		e.pop, e.push = c1, c2
		e.slots = []int{a(0)}
	case "APPEND":
		e.pop, e.push = a(0), 1
	case "NEWSLICE", "NEWSTRUCT":
		e.pop, e.push = a(1), 1
	case "NEWMAP":
		e.pop, e.push = a(2), 1
	case "STRUCT":
		e.pop, e.push = a(0), 1
	case "RANGE":
		e.pop = 1
		e.next = false
		e.jumps = []int{pc + a(1) + 1}
		e.slots = []int{a(0)}
	case "ITER":
		k, v := c7pair(in.args[1])
		e.jumps = []int{pc + a(2) + 1}
		e.slots = []int{a(0), k, v}
	case "LOCALMUL", "LOCALADD", "LOCALDIV", "LOCALSUB":
		e.push = 1
		e.slots = []int{a(0), a(1)}
	case "PANIC":
		e.pop = 1
		e.terminal, e.next = true, false
		e.retN = -1
	case "BREAK", "CONTINUE", "TODO":
		e.bad = "placeholder instruction " + in.op + " survived compilation"
	default:
		e.bad = "instruction " + in.op + " is not in the abstract opcode table"
	}
	return e
}

// a function of the program: body = code[start:end), entered with depth 0 above `slots` locals
type c7func struct {
	name       string
	start, end int
	slots      int
	rets       int
	top        bool
}

// c7split finds every function body (FUNC headers nest).
func c7split(code []c7ins) ([]c7func, map[int]int, string) {
	skip := map[int]int{} // FUNC index -> index after its body
	var fns []c7func
	var walk func(lo, hi int) string
	walk = func(lo, hi int) string {
		for i := lo; i < hi; i++ {
			if code[i].op != "FUNC" {
				continue
			}
			if len(code[i].args) != 3 {
				return "malformed FUNC header"
			}
			na, nr := c7pair(code[i].args[0])
			if na < 0 {
				na = -na
			}
			slots, body := c7int(code[i].args[1]), c7int(code[i].args[2])
			start := i + 1 + na + nr
			end := start + body
			if end > hi || start > end {
				return fmt.Sprintf("FUNC at %d: body [%d,%d) leaves the enclosing code [%d,%d)", i, start, end, lo, hi)
			}
			for k := i + 1; k < start; k++ {
				if code[k].op != "TYPE" {
					return fmt.Sprintf("FUNC at %d: header entry %d is %s, not TYPE", i, k, code[k].op)
				}
			}
			fns = append(fns, c7func{name: code[i].fn, start: start, end: end, slots: slots, rets: nr})
			skip[i] = end
			if p := walk(start, end); p != "" {
				return p
			}
			i = end - 1
		}
		return ""
	}
	if p := walk(0, len(code)); p != "" {
		return nil, nil, p
	}
	fns = append(fns, c7func{name: "(top level)", start: 0, end: len(code), top: true})
	return fns, skip, ""
}

type c7result struct {
	states, transitions int
	depth               map[int]int // absolute pc -> abstract depth (for conformance)
	problems            []string
}

// c7explore: all-paths exploration of every function.
func c7explore(code []c7ins, stmtOnly bool) c7result {
	res := c7result{depth: map[int]int{}}
	fns, skip, p := c7split(code)
	if p != "" {
		res.problems = append(res.problems, p)
		return res
	}
	report := func(f c7func, pc int, format string, a ...any) {
		if len(res.problems) < 5 {
			in := ""
			if pc >= 0 && pc < len(code) {
				in = fmt.Sprintf(" [%s %s, line %d]", code[pc].op, strings.Join(code[pc].args, " "), code[pc].line)
			}
			res.problems = append(res.problems, fmt.Sprintf("%s pc=%d%s: %s", f.name, pc-f.start, in, fmt.Sprintf(format, a...)))
		}
	}
	for _, f := range fns {
		depth := map[int]int{}
		var work []int
		visit := func(from, pc, d int) {
			res.transitions++
			if pc < f.start || pc > f.end {
				report(f, from, "I3: branch target %d outside the function body [0,%d]", pc-f.start, f.end-f.start)
				return
			}
			if old, ok := depth[pc]; ok {
				if old != d {
					report(f, pc, "I1: reached with operand-stack depth %d and %d on different paths", old, d)
				}
				return
			}
			depth[pc] = d
			work = append(work, pc)
		}
		visit(f.start, f.start, 0)
		for len(work) > 0 {
			pc := work[len(work)-1]
			work = work[:len(work)-1]
			d := depth[pc]
			res.states++
			if pc == f.end {
				// ran off the end of the body
				if f.top {
					if stmtOnly && d != 0 {
						report(f, pc-1, "I8: statement-only program ends with %d residual values", d)
					}
				} else if d != 0 {
					report(f, pc-1, "I4: end of function body reached with depth %d", d)
				}
				continue
			}
			in := code[pc]
			if in.op == "FUNC" {
				// a nested function literal/definition: pushes the function value, skips header and body
				visit(pc, skip[pc], d+1)
				continue
			}
			if in.op == "TYPE" {
				report(f, pc, "I3: control reached a FUNC header entry")
				continue
			}
			e := c7effect(in, pc)
			if e.bad != "" {
				report(f, pc, "I7: %s", e.bad)
				continue
			}
			if d < e.pop {
				report(f, pc, "I2: pops %d values with only %d on the operand stack (would eat into the local slots)", e.pop, d)
				continue
			}
			if !f.top {
				for _, s := range e.slots {
					if s < 0 || s >= f.slots {
						report(f, pc, "I5: local slot $%d outside the function's %d slots", s, f.slots)
					}
				}
			}
			if e.terminal {
				if e.retN >= 0 {
					if f.top {
						report(f, pc, "I4: RETURN at top level")
					} else if d != e.retN || e.retN != f.rets {
						report(f, pc, "I4: RETURN %d with depth %d in a function declaring %d results", e.retN, d, f.rets)
					}
				}
				continue
			}
			nd := d - e.pop + e.push
			for _, t := range e.jumps {
				// a jump may not land inside a nested FUNC it did not enter
				if e.jumpKeeps {
					visit(pc, t, d)
				} else {
					visit(pc, t, nd)
				}
			}
			if e.next {
				visit(pc, pc+1, nd)
			}
		}
		for pc, d := range depth {
			if pc == f.end {
				continue // "ran off the end" is a pseudo state, not an instruction of this function (it is the next instruction of the enclosing one)
			}
			res.depth[pc] = d
		}
		// jump targets inside nested function bodies
		for pc := range depth {
			for fi, end := range skip {
				if fi >= f.start && fi < f.end && pc > fi && pc < end && !(f.start > fi) {
					report(f, pc, "I3: control entered the header/body of the nested function at %d without a call", fi-f.start)
				}
			}
		}
	}
	return res
}

// --- call-in-every-position enumeration -------------------------------------------------

func corpusCalls() []cItem {
	const decls = `type T struct {
	n int
}

func (t *T) M(a int) int {
	return t.n + a
}

func (t *T) Two() (int, int) {
	return t.n, 2
}

func pollute() int {
	var a uint8 = 200
	var b float64 = 1.5
	var c int8 = -3
	var d uint32 = 4000000000
	e := "s"
	f := []int{1}
	g, h, i, j := a, b, c, d
	var k uint8 = 9
	l, m, n, o := b, a, d, c
	p, q, r, s2 := a, b, a, b
	t, u, v, w := c, d, c, d
	return int(a) + int(b) + int(c) + int(d%7) + len(e) + len(f) + int(g) + int(h) + int(i) + int(j%7) + int(k) + int(l) + int(m) + int(n%7) + int(o) + int(p) + int(q) + int(r) + int(s2) + int(t) + int(u%7) + int(v) + int(w%7)
}

var cnt int

func Reset() {
	cnt = 0
}

func z() {
	cnt++
}

func one() int {
	cnt++
	return 1
}

func two() (int, int) {
	cnt++
	return 1, 2
}

func ok(a int) bool {
	cnt++
	return a > 0
}

func id(a int) int {
	return a
}

func mk() []int {
	return []int{4, 5}
}

func mkT() *T {
	return &T{n: 3}
}

func vs(a int, b ...int) int {
	return a + len(b)
}

`
	stmts := []string{
		// calls in expression positions of every statement form
		"switch {\ncase ok(a):\n\tr = 1\ncase ok(b):\n\tr = 2\n}",
		"switch one() {\ncase one():\n\tr = 1\ndefault:\n\tr = 2\n}",
		"switch a {\ncase id(1):\n\tr = 1\ncase id(2):\n\tr = 2\n}",
		"for z(); a < 3; a++ {\n\tr++\n}",
		"for i := one(); ok(3 - i); i++ {\n\tr += i\n}",
		"for i := 0; i < 2; z() {\n\ti++\n}",
		"for i := 0; i < 2; i += one() {\n\tr++\n}",
		"for ok(2 - r) {\n\tr++\n}",
		"if z(); a > 0 {\n\tr = 1\n}",
		"if x := one(); x > 0 {\n\tr = x\n}",
		"if x, y := two(); x < y {\n\tr = y\n}",
		"if ok(a) {\n\tr = 1\n} else if ok(b) {\n\tr = 2\n} else {\n\tr = 3\n}",
		"for _, v := range mk() {\n\tr += v\n}",
		"for i := range mk() {\n\tr += i\n}",
		"for range mk() {\n\tr++\n}",
		"r = s[one()]",
		"s[one()] = one()",
		"s[one()] += one()",
		"s[one()]++",
		"r = id(one())",
		"r = id(id(one()))",
		"r = mkT().M(one())",
		"r = t.M(t.M(one()))",
		"r, q = one(), one()",
		"r, q = two()",
		"r, q = t.Two()",
		"s[one()], m[\"k\"] = one(), one()",
		"t.n, s[0] = two()",
		"_, q = two()",
		"r, _ = two()",
		"_, _ = two()",
		"_ = one()",
		"x, _ := two()\nr = x",
		"_, y := two()\nr = y",
		"for _, v := range s {\n\tr += v\n}",
		"for i, _ := range s {\n\tr += i\n}",
		"v, _ := m[\"k\"]\nr = v",
		"_, present := m[\"k\"]\nif present {\n\tr = 1\n}",
		"v, present := m[\"zz\"]\nif !present {\n\tr = v + 1\n}",
		"z()",
		"one()",
		"two()",
		"t.Two()",
		"r = vs(one())",
		"r = vs(one(), one(), one())",
		"r = vs(1, s...)",
		"s = append(s, one(), one())",
		"s = append(s, mk()...)",
		"r = len(mk()) + len(s)",
		"delete(m, \"k\")",
		"copy(s, mk())",
		"r = one() + one()*one()",
		"if ok(a) && ok(b) || ok(r) {\n\tr = 1\n}",
		"r = -one()",
		"f := one\nr = f()",
		"g := t.M\nr = g(one())",
		"h := func(x int) int {\n\treturn x + one()\n}\nr = h(one())",
		"var u int = one()\nr = u",
		"var w, x = two()\nr = w + x",
		"u := []int{one(), one()}\nr = u[1]",
		"u := map[string]int{\"a\": one()}\nr = u[\"a\"]",
		"u := &T{n: one()}\nr = u.n",
		"t.n = one()\nt.n += one()\nt.n++",
		"h2 := func() (int, int) {\n\treturn 1, 2\n}\nx, y := h2()\nif x < y {\n\treturn id(x + y)\n}",
		"h0 := func() {\n\tcnt++\n}\nh0()\nif cnt > 0 {\n\treturn one()\n}",
		"h3 := func(p int) (int, int, int) {\n\treturn p, p + 1, p + 2\n}\n_, y, _ := h3(4)\nif y > 0 {\n\treturn t.M(y)\n}",
		"m[\"k\"] = one()\nm[\"k\"] += one()\nm[\"k\"]++",
		// the ordered paths through hidden slots (targets and receivers with calls, a call on the right only), clauses
		// with empty parts, tuple post statements, typed nil and rune conversions
		"s[a] += one()",
		"s[a-a], m[\"k\"] = m[\"k\"], one()",
		"mkT().n += one()",
		"mkT().n++",
		"mkT().M(one())",
		"r = mkT().M(mkT().M(one()))",
		"r = mkT().M(vs(one(), mk()...))",
		"s[one()], t.n = t.n, s[0]",
		"m[\"k\"], _ = two()",
		"s[id(one())] = t.M(one())",
		"mkT().n = one()",
		"for i, j := 0, one()+2; i < j; i, j = i+1, j-1 {\n\tr++\n}",
		"for ; a < 2; {\n\ta++\n}",
		"for ; ; {\n\tr++\n\tbreak\n}",
		"for i := 0; ; i++ {\n\tif i > one() {\n\t\tbreak\n\t}\n}",
		"var u []int = nil\nr = len(u)",
		"u := []float64(nil)\nr = len(append(u, 1))",
		"const (\n\tca uint8 = iota\n\tcb\n)\nr = int(cb) + one()",
		"var e any = \"s\"\nif e == nil || e == one() {\n\tr = 1\n}",
		"u := []rune(\"héj\")\nr = len(string(u)) + len(u)",
		"switch a {\ncase one(), id(2):\n\tr = 1\ncase 3, 4, id(5):\n\tr = 2\n}",
		// every builtin, as a statement where Go allows it and with its value used in every position
		"r = copy(s, mk())",
		"r = copy(s, s[one():]) + copy(s, s)",
		"q, r = copy(s, mk()), len(s)",
		"r = id(copy(s, mk()))",
		"if copy(s, mk()) > 1 {\n\tr = 1\n}",
		"for i := 0; i < copy(s, s); i++ {\n\tr++\n}",
		"r = cap(s) - cap(s) + len(m) + len(\"ab\")",
		"r = len(append(s, one()))",
		"u := make([]int, one())\nr = len(u) + len(make(map[string]int))",
		"u := new(T)\nr = u.n + 1",
		"println()",
		"r = int(float64(one())) + int(byte(q))",
		"u := string(rune(65 + one()))\nr = len(u) + len([]byte(u))",
		"if a > 5 {\n\tpanic(\"never\")\n}\nr = 1",
		"delete(m, \"zz\")\ndelete(m, \"k\")\nr = len(m)",
		"u := make(map[string]int, one())\nr = len(u)",
		"u := make(map[int]int, 8)\nu[1] = one()\nr = u[1]",
		"var z []int\nr = copy(s, z)\nq = copy(z, s)",
		"for i := 0; i < 4; i++ {\n\tif i == 1 {\n\t\tcontinue\n\t}\n\tr = r + 1 + 2\n\tif r > 7 {\n\t\tbreak\n\t}\n}",
		"if a > 5 {\n\treturn copy(s, mk())\n}\nr = 2",
		"if a < 5 {\n\treturn len(append(s, one()))\n}\nr = 2",
		"if a < 5 {\n\treturn int(float64(one()))\n}\nr = 2",
		"u := func(p []int, x int) []int {\n\treturn append(p, x)\n}\nr = len(u(s, one()))",
		"u := func(_ int, _ int, x int) int {\n\ty := x\n\treturn y\n}\nr = u(one(), one(), 3)",
	}
	hoods := []string{
		"%S",
		"if a > 0 {\n\t%S\n}",
		"for i := 0; i < 2; i++ {\n\t%S\n}",
		"for _, e := range s {\n\t_ = e\n\t%S\n}",
		"switch {\ncase a > 0:\n\t%S\ndefault:\n\tr = 9\n}",
		"for i := 0; i < 3; i++ {\n\tif i == 1 {\n\t\tcontinue\n\t}\n\t%S\n\tif i == 2 {\n\t\tbreak\n\t}\n}",
	}
	var items []cItem
	var funcs []string
	var calls []cCall
	idx := 0
	flush := func() {
		if len(funcs) == 0 {
			return
		}
		pkg := fmt.Sprintf("c%04d", idx)
		idx++
		for i := range calls {
			calls[i].Fn = pkg + "." + calls[i].Fn
		}
		items = append(items, cItem{Name: "calls/" + pkg, Files: map[string]string{pkg + "/x.go": "package " + pkg + "\n\n" + decls + strings.Join(funcs, "\n")}, Dir: pkg, Calls: calls})
		funcs, calls = nil, nil
	}
	for _, st := range stmts {
		for _, h := range hoods {
			body := strings.ReplaceAll(h, "%S", strings.ReplaceAll(st, "\n", "\n\t"))
			if strings.Count(h, "%S") > 0 && h != "%S" && (strings.Contains(st, ":=") || strings.HasPrefix(st, "var ")) && strings.Contains(h, "for i") && strings.Contains(st, "i :=") {
				continue
			}
			name := fmt.Sprintf("F%d", len(funcs))
			funcs = append(funcs, fmt.Sprintf("func W%s(a int, b int) int {\n\tp0, p1, p2 := 11, 22, 33\n\tpollute()\n\tr := %s(a, b)\n\tif p0 != 11 || p1 != 22 || p2 != 33 {\n\t\treturn 777777\n\t}\n\treturn r\n}\n", name[1:], name))
			funcs = append(funcs, fmt.Sprintf("func %s(a int, b int) int {\n\tr, q := 0, 0\n\ts := []int{7, 8, 9}\n\tm := map[string]int{\"k\": 5}\n\tt := &T{n: 4}\n%s\treturn r*1000 + q*100 + s[0] + s[1] + m[\"k\"] + t.n + cnt + len(s)\n}\n", name, c02indent(body, "\t")))
			for _, args := range [][]goatlang.Value{{goatlang.Int(1), goatlang.Int(0)}, {goatlang.Int(0), goatlang.Int(2)}} {
				calls = append(calls, cCall{Fn: "Reset"}, cCall{Fn: name, NRet: 1, Args: args}, cCall{Fn: "Reset"}, cCall{Fn: "W" + name[1:], NRet: 1, Args: args})
			}
			if len(funcs) >= 40 {
				flush()
			}
		}
	}
	flush()
	return items
}

// --- the check ----------------------------------------------------------------------------

// c7goStatements: the Eval input is a sequence of Go statements/declarations without bare expression statements.
func c7goStatements(src string) bool {
	fset := token.NewFileSet()
	notStmt := map[string]bool{"make": true, "append": true, "len": true, "cap": true, "new": true, "int": true, "int8": true, "int16": true, "int32": true, "int64": true,
		"uint": true, "uint8": true, "uint16": true, "uint32": true, "uint64": true, "byte": true, "rune": true, "float64": true, "float32": true, "string": true, "bool": true, "__type": true}
	check := func(n ast.Node, inFunc bool) bool {
		ok := true
		var walk func(x ast.Node, loop, sw, fn bool)
		walk = func(x ast.Node, loop, sw, fn bool) {
			if x == nil || !ok {
				return
			}
			switch t := x.(type) {
			case *ast.ExprStmt:
				call, is := t.X.(*ast.CallExpr)
				if !is {
					ok = false
					return
				}
				switch f := call.Fun.(type) {
				case *ast.Ident:
					if notStmt[f.Name] {
						ok = false // a conversion or value-only builtin is not a Go statement
					}
				case *ast.SelectorExpr:
				default:
					ok = false
				}
			case *ast.BranchStmt:
				if t.Tok == token.BREAK && !loop && !sw || t.Tok == token.CONTINUE && !loop || t.Tok == token.GOTO || t.Tok == token.FALLTHROUGH {
					ok = false
				}
			case *ast.ReturnStmt:
				if !fn {
					ok = false
				}
			}
			// recurse with context
			switch t := x.(type) {
			case *ast.ForStmt:
				walk(t.Init, loop, sw, fn)
				walk(t.Post, loop, sw, fn)
				walk(t.Body, true, false, fn)
				return
			case *ast.RangeStmt:
				walk(t.Body, true, false, fn)
				return
			case *ast.SwitchStmt:
				walk(t.Init, loop, sw, fn)
				walk(t.Body, loop, true, fn)
				return
			case *ast.FuncDecl:
				if t.Body != nil {
					walk(t.Body, false, false, true)
				}
				return
			case *ast.FuncLit:
				walk(t.Body, false, false, true)
				return
			}
			ast.Inspect(x, func(c ast.Node) bool {
				if c == nil || c == x {
					return true
				}
				switch c.(type) {
				case ast.Stmt, *ast.FuncDecl, *ast.FuncLit:
					walk(c, loop, sw, fn)
					return false
				}
				return true
			})
		}
		walk(n, false, false, inFunc)
		return ok
	}
	if f, err := parser.ParseFile(fset, "x.go", "package p\n"+src, 0); err == nil {
		return check(f, false)
	}
	if f, err := parser.ParseFile(fset, "x.go", "package p\nfunc _() {\n"+src+"\n}", 0); err == nil {
		for _, d := range f.Decls {
			if fd, ok := d.(*ast.FuncDecl); ok && fd.Body != nil {
				// the wrapper function is not a real function: a top-level return is not a Go statement here
				for _, st := range fd.Body.List {
					if !check(st, false) {
						return false
					}
				}
			}
		}
		return true
	}
	return false
}

type c7replay struct {
	Name     string `json:"name"`
	Optimize bool   `json:"optimize"`
}

// c7checkItem compiles (and runs) one item in the current optimizer mode; returns problems.
func c7checkItem(it *cItem, stmtOnly bool, res *c7result) (problems []string, conform int) {
	m := goat.New()
	defer m.Close()
	m.Ctx.MaxSteps = 300_000
	var dump bytes.Buffer
	// trace: (absolute pc, concrete depth above locals) per VM value
	var base uintptr
	isz := goatlang.VerifInstrSize()
	type tr struct {
		abs, depth, baseN, frame int
		vm                       uintptr
	}
	var steps []tr
	m.Ctx.Trace = func(s goatlang.VerifStep) {
		if base == 0 {
			base = s.Frame // the first step belongs to the top-level frame of run()
		}
		if s.Frame < base {
			return
		}
		off := (s.Frame - base) / isz
		if (s.Frame-base)%isz != 0 || off > 1<<22 {
			return // a synthetic frame (VM.Func's one-instruction array)
		}
		if len(steps) < 200000 {
			steps = append(steps, tr{int(off) + s.PC, s.Depth, s.BaseN, int(off), s.VMID})
		}
	}
	var first goat.Result
	if it.Dir != "" {
		first = m.Load(goat.FS(it.Files), it.Dir, goatlang.WithCodeDump(&dump))
	} else {
		first = m.Eval(goat.FS(it.Files), it.EvalSrc, goatlang.WithCodeDump(&dump))
	}
	if !strings.HasPrefix(it.Name, "test-") && first.Failed() && !first.Budget {
		// the generators only emit valid programs: one that does not load would silently drop out of the exploration
		return []string{"generated corpus item does not load or run: " + first.String()}, 0
	}
	if dump.Len() == 0 {
		return nil, 0 // did not compile: nothing to explore
	}
	code, err := c7parseDump(dump.String())
	if err != nil {
		return []string{"code dump: " + err.Error()}, 0
	}
	*res = c7explore(code, stmtOnly && it.Dir != "")
	problems = append(problems, res.problems...)
	if it.Dir == "" && stmtOnly && first.Err == nil && first.HostPanic == nil && len(first.Rets) != 0 {
		problems = append(problems, fmt.Sprintf("I8: Eval of a statement-only program returned %d residual values", len(first.Rets)))
	}
	if it.EvalSrc != "" && len(it.Files) > 0 {
		// imports were compiled and run first with their own instruction array: the trace base is unreliable
		return problems, 0
	}
	if !first.Failed() {
		direct := map[string]string{}
		for _, c := range it.Calls {
			res := m.Call(c.Fn, c.NRet, c.Args...)
			j := strings.LastIndexByte(c.Fn, '.')
			if j < 0 || j+2 > len(c.Fn) || c.NRet == 0 {
				continue
			}
			var as []string
			for _, a := range c.Args {
				as = append(as, a.String())
			}
			key := c.Fn[j+2:] + "(" + strings.Join(as, ",") + ")"
			obs := cRender(m, res)
			switch c.Fn[j+1] {
			case 'F':
				direct[key] = obs
			case 'W':
				// frame isolation, observed: the same function entered from a frame with live locals must behave as when
				// entered directly, and must leave its caller's locals alone (W returns 777777 if they changed)
				if d, ok := direct[key]; ok && strings.HasPrefix(d, "ok") && d != obs && len(problems) < 8 {
					problems = append(problems, fmt.Sprintf("frame isolation: F%s gives %s when called directly but %s when called from a frame with live locals", key, d, obs))
				}
			}
		}
	}
	// conformance: each concrete step must be an abstract state with the same depth
	fns, _, _ := c7split(code)
	slotsAt := func(abs int) (int, bool) {
		best := -1
		for i, f := range fns {
			if !f.top && abs >= f.start && abs < f.end && (best < 0 || f.start > fns[best].start) {
				best = i
			}
		}
		if best < 0 {
			return 0, false
		}
		return fns[best].slots, true
	}
	topSlots := -1
	starts := map[int]bool{0: true}
	for _, f := range fns {
		starts[f.start] = true
	}
	for _, s := range steps {
		if s.abs >= len(code) || !starts[s.frame] {
			continue // not a frame of this instruction array (VM.Func's synthetic one-instruction frame)
		}
		slots, inFunc := slotsAt(s.abs)
		if !inFunc {
			if topSlots < 0 {
				topSlots = s.depth // first top-level step: depth == number of top-level slots
			}
			slots = topSlots
		}
		want, known := res.depth[s.abs]
		if !known {
			if len(problems) < 8 {
				problems = append(problems, fmt.Sprintf("conformance: the VM executed pc %d (%s) which the abstract exploration never reached", s.abs, code[s.abs].op))
			}
			continue
		}
		conform++
		if s.depth-slots != want {
			if len(problems) < 8 {
				problems = append(problems, fmt.Sprintf("conformance: at pc %d (%s %s, line %d) the VM has %d operands above its locals, the abstract machine %d", s.abs, code[s.abs].op, strings.Join(code[s.abs].args, " "), code[s.abs].line, s.depth-slots, want))
			}
		}
	}
	return problems, conform
}

func c07corpus(r *report.Run) ([]cItem, []bool) {
	thorough := r.Tier == "thorough"
	var items []cItem
	var stmtOnly []bool
	add := func(xs []cItem, so bool) {
		for _, x := range xs {
			items = append(items, x)
			stmtOnly = append(stmtOnly, so)
		}
	}
	hv, err := corpusHarvest()
	if err != nil {
		r.HarnessError("harvest: %v", err)
	}
	for _, x := range hv {
		if x.EvalSrc != "" {
			if !c7goStatements(x.EvalSrc) {
				continue // contains a bare expression statement (REPL style): not a program made only of Go statements
			}
			if obs := cObserve(&x); len(obs) == 0 || !strings.HasPrefix(obs[0], "ok") {
				continue // a fragment that does not stand on its own (undefined names, ...): not a program the compiler accepts and runs
			}
			add([]cItem{x}, true)
		} else {
			add([]cItem{x}, false)
		}
	}
	add(corpusCalls(), true)
	add(corpusFusion(), true)
	add(corpusWide(cWideWidths(thorough)), true)
	maxN6, fl6, maxN8, d11, f12 := 4, 2, 4, 3, 24
	if thorough {
		maxN6, fl6, maxN8, d11, f12 = 5, 3, 5, 3, 64
	}
	add(corpusC06(maxN6, fl6), true)
	add(corpusC08(maxN8), true)
	add(corpusC04(false, 2), true)
	add(corpusC11(2, d11), true)
	add(corpusC12(f12), true)
	return items, stmtOnly
}

func c07run(r *report.Run) {
	r.Rule("abstract states (function, pc, operand-stack depth above the locals) of every function of every corpus program - call-in-every-position enumeration (88 statement forms with calls of 0/1/2 results and blanks x 6 neighbourhoods), fusion-window programs, wide-frame programs (10 statement groups behind 120..300 locals, entered directly and from a caller with as many live locals), C04 forms, C06, C08, C11, C12 corpora and the Go-statement inputs of the repository's test tables - compiled with the optimizer off and on; ALL paths explored; invariants I1 (one depth per pc), I2 (never pops into locals), I3 (branches stay inside the function, never into a nested header/body), I4 (RETURN n at depth n = declared results; body ends at depth 0), I5 (slot operands below the FUNC slot count), I7 (no placeholder survives), I8 (statement-only top level ends at depth 0 / Eval returns nothing); plus fallthrough / defer / goto / select in 3 contexts: refused, or run as Go runs them (an accepted one must not shift the results of a later return); non-trivial = function with at least one branch")
	r.Assume("opcode table (pops/pushes/successors) read off do.go, validated on every run by replaying the real VM's trace: each executed (pc, depth) must be an abstract state with the same depth", "the instruction list is read from the public WithCodeDump output")
	items, stmtOnly := c07corpus(r)
	r.Set("corpus_items", len(items))
	type agg struct{ states, transitions, conform, funcs int }
	var total [2]agg
	for mode := 0; mode < 2; mode++ {
		goatlang.VerifSetOptimize(mode == 1)
		results := make([]agg, len(items))
		par.DoChunk(len(items), 4, func(i int) {
			if r.Expired() {
				return
			}
			var res c7result
			problems, conform := c7checkItem(&items[i], stmtOnly[i], &res)
			results[i] = agg{res.states, res.transitions, conform, 0}
			if len(problems) > 0 {
				src := items[i].EvalSrc
				if src == "" {
					src = fmt.Sprintf("(package %s)", items[i].Dir)
				}
				r.Fail(&report.Case{Kind: "bytecode", Key: fmt.Sprintf("%s optimizer=%v\n%s", items[i].Name, mode == 1, trunc(src, 400)), Input: c7replay{items[i].Name, mode == 1}, Files: items[i].Files, Want: "invariants I1-I8 hold on every path; the VM's trace conforms", Got: strings.Join(problems, "\n")})
			}
			if res.transitions > res.states {
				r.Nontrivial(fmt.Sprintf("%s/%d", items[i].Name, mode))
			}
			if i%499 == 3 && mode == 1 {
				r.Sample(map[string]any{"item": items[i].Name, "abstract_states": res.states, "transitions": res.transitions, "vm_steps_checked_against_abstract_depth": conform})
			}
		})
		for _, a := range results {
			total[mode].states += a.states
			total[mode].transitions += a.transitions
			total[mode].conform += a.conform
		}
	}
	goatlang.VerifSetOptimize(true)
	for _, tc := range c07unsupported() {
		r.Eval(1)
		r.Nontrivial("unsupported " + tc[0])
		if bad, got := c07checkUnsupported(tc); bad {
			r.Fail(&report.Case{Kind: "unsupported", Key: tc[0], Files: map[string]string{"t/t.go": tc[1]}, Want: tc[2], Got: got})
		}
	}
	r.Eval(len(items) * 2)
	r.Set("states", total[0].states+total[1].states)
	r.Set("transitions", total[0].transitions+total[1].transitions)
	r.Set("traces_validated_against_impl", total[0].conform+total[1].conform)
	r.Set("states_optimizer_off", total[0].states)
	r.Set("states_optimizer_on", total[1].states)
	if total[1].conform == 0 {
		r.HarnessError("conformance replay observed no VM step")
	}
	if r.Expired() {
		r.NotExhaustive("internal deadline reached")
	}
}

// Go statements outside the supported subset: the front end may refuse them, but a program that is accepted must
// run as Go runs it - in particular it must not leave a value on the stack that shifts the results of a later return.
func c07unsupported() [][3]string {
	hdr := "package t\n\nimport \"fmt\"\n\nvar cnt int\n\nfunc z() {\n\tcnt++\n}\n\n"
	var out [][3]string
	add := func(name, decls, want string) {
		out = append(out, [3]string{name, hdr + decls, want})
	}
	for _, ctx := range [][2]string{{"", ""}, {"\tfor i := 0; i < 1; i++ {\n", "\t}\n"}, {"\tif n > 0 {\n", "\t}\n"}} {
		add("fallthrough"+ctx[0], "func f(n int) (int, string) {\n"+ctx[0]+"\tswitch n {\n\tcase 1:\n\t\tfallthrough\n\tcase 2:\n\t\treturn 2, \"two\"\n\t}\n"+ctx[1]+"\treturn 0, \"other\"\n}\n\nfunc Main() {\n\ta, b := f(1)\n\tfmt.Println(a, b)\n\ta, b = f(3)\n\tfmt.Println(a, b)\n}\n", "2 two\n0 other\n")
		add("defer"+ctx[0], "func g(n int) int {\n"+ctx[0]+"\tdefer z()\n"+ctx[1]+"\tif cnt > 0 {\n\t\treturn -1\n\t}\n\treturn 7\n}\n\nfunc Main() {\n\tx := g(1)\n\tfmt.Println(x, cnt)\n}\n", "7 1\n")
		add("goto"+ctx[0], "func h(n int) (int, int) {\n\ti := 0\n"+ctx[0]+"\tgoto done\n"+ctx[1]+"\ti = 5\ndone:\n\treturn i, n\n}\n\nfunc Main() {\n\ta, b := h(1)\n\tfmt.Println(a, b)\n}\n", "0 1\n")
		add("select"+ctx[0], "func s(n int) (int, int) {\n"+ctx[0]+"\tselect {\n\tdefault:\n\t\tz()\n\t}\n"+ctx[1]+"\treturn cnt, n\n}\n\nfunc Main() {\n\ta, b := s(1)\n\tfmt.Println(a, b)\n}\n", "1 1\n")
		add("bare name"+ctx[0], "func k(n int) (int, int) {\n"+ctx[0]+"\t_ = n\n"+ctx[1]+"\treturn 3, n\n}\n\nfunc Main() {\n\ta, b := k(1)\n\tfmt.Println(a, b)\n}\n", "3 1\n")
	}
	return out
}

func c07checkUnsupported(tc [3]string) (bool, string) {
	res := goat.RunMain(map[string]string{"t/t.go": tc[1]}, "t", "t.Main")
	if res.Failed() {
		if res.HostPanic != nil && !res.Budget {
			return true, "a Go panic escaped: " + fmt.Sprint(res.HostPanic)
		}
		return false, res.String() // refused, or stopped with an error: nothing was silently mis-executed
	}
	return res.Out != tc[2], res.Out
}

func c07rerun(c *report.Case) (bool, string) {
	if c.Kind == "unsupported" {
		return c07checkUnsupported([3]string{c.Key, c.Files["t/t.go"], c.Want})
	}
	var in c7replay
	if !remarshal(c.Input, &in) {
		return false, "bad input"
	}
	for _, tier := range []string{"quick", "thorough"} {
		rr := report.New("C07", tier)
		items, so := c07corpus(rr)
		for i := range items {
			if items[i].Name == in.Name {
				goatlang.VerifSetOptimize(in.Optimize)
				defer goatlang.VerifSetOptimize(true)
				var res c7result
				problems, _ := c7checkItem(&items[i], so[i], &res)
				return len(problems) > 0, strings.Join(problems, "\n")
			}
		}
	}
	return false, "item not found"
}

func init() { register("C07", c07run, c07rerun) }
