package props

import (
	"fmt"
	"strconv"
	"strings"
	"unicode/utf8"

	"github.com/philhassey/goatlang"

	"verif/internal/goat"
	"verif/internal/par"
	"verif/internal/report"
)

// C13 — strings are immutable UTF-8 byte sequences with Go's operations.
//
// Space: all concatenations of <=2 (3) chunks from {a, é, €, 🐐, \xff, \xc3}
// x every index, every slice (all i<=j plus the omitted-bound spellings),
// range (key+value, key only), []byte round trips, all pairs under all six
// comparisons, concatenation with aliases, byte arithmetic; string(rune) for
// boundary runes; every escape in interpreted, raw and rune literals.
// Oracle: the same operation on the same Go string in the harness / strconv.

var c13chunks = []string{"a", "é", "€", "🐐", "\xff", "\xc3"}

const c13lib = `package st

import "fmt"

func Len(s string) int {
	return len(s)
}

func At(s string, i int) byte {
	return s[i]
}

func AtAny(s string, i int) any {
	return s[i]
}

func Sub(s string, i int, j int) string {
	return s[i:j]
}

func SubFrom(s string, i int) string {
	return s[i:]
}

func SubTo(s string, j int) string {
	return s[:j]
}

func SubAll(s string) string {
	return s[:]
}

func Range(s string) []int {
	var out []int
	for i, r := range s {
		out = append(out, i, int(r))
	}
	return out
}

func RangeAny(s string) []any {
	var out []any
	for i, r := range s {
		out = append(out, i, r)
	}
	return out
}

func RangeKeys(s string) []int {
	var out []int
	for i := range s {
		out = append(out, i)
	}
	return out
}

func RangeCount(s string) int {
	n := 0
	for range s {
		n++
	}
	return n
}

func Bytes(s string) []byte {
	return []byte(s)
}

func RoundTrip(s string) string {
	b := []byte(s)
	return string(b)
}

func Runes(s string) []rune {
	return []rune(s)
}

func RuneTrip(s string) string {
	return string([]rune(s))
}

func RunesBack(s string) string {
	var r []rune
	for _, c := range s {
		r = append(r, c)
	}
	return string(r)
}

func FromRune(r rune) string {
	return string(r)
}

func FromByteAt(s string, i int) string {
	return string(s[i])
}

func FromByteVar(s string, i int) string {
	b := s[i]
	var c byte = b
	return string(c) + string(rune(b))
}

func Cmp(a string, b string) int {
	n := 0
	if a == b {
		n += 1
	}
	if a != b {
		n += 2
	}
	if a < b {
		n += 4
	}
	if a <= b {
		n += 8
	}
	if a > b {
		n += 16
	}
	if a >= b {
		n += 32
	}
	return n
}

func Concat(a string, b string) string {
	return a + b
}

func ConcatRev(a string, b string) string {
	return b + a
}

func ConcatLocals(a string, b string) []string {
	y := b
	x := a
	sep := "|"
	r := sep + y
	r = x + r
	t := y
	t += x
	return []string{x + y, y + x, r, t, sep + x + sep}
}

func ConcatAlias(a string, b string) []string {
	c := a
	d := b
	a += b
	return []string{a, c, d, b}
}

func Digit(s string, i int) bool {
	return s[i]-'0' <= 9
}

func ByteMath(s string, i int) byte {
	return s[i] + 200
}

func Print(s string) {
	fmt.Println(s)
}

func MutateCopy(s string) string {
	b := []byte(s)
	if len(b) > 0 {
		b[0] = 'Z'
	}
	return s
}
`

func c13strings(maxChunks int) []string {
	out := []string{""}
	var rec func(cur string, n int)
	rec = func(cur string, n int) {
		if n == maxChunks {
			return
		}
		for _, c := range c13chunks {
			out = append(out, cur+c)
			rec(cur+c, n+1)
		}
	}
	rec("", 0)
	return out
}

type c13case struct {
	Op   string   `json:"op"`
	Strs []string `json:"strs"` // quoted with strconv.Quote
	Ints []int    `json:"ints"`
}

// c13do runs one library call and renders the observation.
func c13do(m *goat.M, op string, strs []string, ints []int) string {
	var args []goatlang.Value
	for _, s := range strs {
		args = append(args, goatlang.String(s))
	}
	for _, i := range ints {
		args = append(args, goatlang.Int(i))
	}
	nret := 1
	if op == "Print" {
		nret = 0
	}
	r := m.Call("st."+op, nret, args...)
	if r.HostPanic != nil {
		return fmt.Sprintf("HOST PANIC %v", r.HostPanic)
	}
	if r.Err != nil {
		return "error"
	}
	if op == "Print" {
		return strconv.Quote(r.Out)
	}
	return c13render(m, r.Rets[0])
}

func c13render(m *goat.M, v goatlang.Value) string {
	ty := m.TypeOf(v)
	switch {
	case ty == "string":
		return "string:" + strconv.Quote(v.String())
	case strings.HasPrefix(ty, "[]"):
		var p []string
		for i := 0; i < v.Len(); i++ {
			e, _ := v.Get(goatlang.Int(i))
			p = append(p, c13render(m, e))
		}
		return ty + "[" + strings.Join(p, " ") + "]"
	case ty == "bool":
		return fmt.Sprintf("bool:%v", v.Bool())
	}
	return ty + ":" + strconv.FormatFloat(v.Float64(), 'f', -1, 64)
}

func c13ints(ty string, xs ...int) string {
	var p []string
	for _, x := range xs {
		p = append(p, fmt.Sprintf("%s:%d", ty, x))
	}
	return "[]" + ty + "[" + strings.Join(p, " ") + "]"
}

func c13run(r *report.Run) {
	maxChunks := 3
	if r.Tier == "thorough" {
		maxChunks = 4
	}
	strs := c13strings(maxChunks)
	r.Rule(fmt.Sprintf("all %d strings built from <=%d chunks of {a, é, €, 🐐, \\xff, \\xc3} x len, every index, every slice (4 spellings), range (3 forms), []byte round trip, []rune conversion and round trip (invalid bytes become U+FFFD), all ordered pairs x 6 comparisons, concatenation with aliases, byte arithmetic; string(rune) for 12 boundary runes; every escape sequence in interpreted/raw/rune literals; non-trivial = case involving a multi-byte or invalid sequence", len(strs), maxChunks))
	r.Assume("Go's own string operations in the harness and strconv.Unquote/UnquoteChar are the oracle", "strings reach the script as host values (VM.Call arguments) and as source literals")
	files := goat.FS(map[string]string{"st/st.go": c13lib})
	newVM := func() *goat.M {
		m := goat.New()
		if lr := m.Load(files, "st"); lr.Failed() {
			r.Fail(&report.Case{Kind: "lib", Key: "string library does not load", Want: "loads", Got: lr.String()})
			return nil
		}
		return m
	}
	if m := newVM(); m == nil {
		return
	} else {
		m.Close()
	}
	check := func(m *goat.M, op string, ss []string, ints []int, want string) {
		got := c13do(m, op, ss, ints)
		r.Eval(1)
		nontriv := false
		q := make([]string, len(ss))
		for i, s := range ss {
			q[i] = strconv.Quote(s)
			if len(s) != utf8.RuneCountInString(s) || !utf8.ValidString(s) {
				nontriv = true
			}
		}
		key := fmt.Sprintf("%s(%s %v)", op, strings.Join(q, ", "), ints)
		if nontriv {
			r.Nontrivial(key)
		}
		r.Outcome(got)
		if got != want {
			r.Fail(&report.Case{Kind: "op", Key: key, Input: c13case{op, q, ints}, Want: want, Got: got})
		}
	}
	par.DoChunk(len(strs), 4, func(k int) {
		m := newVM()
		if m == nil {
			return
		}
		defer m.Close()
		s := strs[k]
		S := []string{s}
		check(m, "Len", S, nil, fmt.Sprintf("int32:%d", len(s)))
		for i := 0; i < len(s); i++ {
			check(m, "At", S, []int{i}, fmt.Sprintf("uint8:%d", s[i]))
			check(m, "AtAny", S, []int{i}, fmt.Sprintf("uint8:%d", s[i]))
			check(m, "Digit", S, []int{i}, fmt.Sprintf("bool:%v", s[i]-'0' <= 9))
			check(m, "ByteMath", S, []int{i}, fmt.Sprintf("uint8:%d", s[i]+200))
			check(m, "FromByteAt", S, []int{i}, "string:"+strconv.Quote(string(rune(s[i]))))
			check(m, "FromByteVar", S, []int{i}, "string:"+strconv.Quote(string(rune(s[i]))+string(rune(s[i]))))
			check(m, "SubFrom", S, []int{i}, "string:"+strconv.Quote(s[i:]))
			check(m, "SubTo", S, []int{i}, "string:"+strconv.Quote(s[:i]))
			for j := i; j <= len(s); j++ {
				check(m, "Sub", S, []int{i, j}, "string:"+strconv.Quote(s[i:j]))
			}
		}
		check(m, "At", S, []int{len(s)}, "error")
		check(m, "Sub", S, []int{0, len(s) + 1}, "error")
		if len(s) > 0 {
			check(m, "Sub", S, []int{1, 0}, "error")
		}
		check(m, "SubFrom", S, []int{len(s)}, "string:\"\"")
		check(m, "SubTo", S, []int{len(s)}, "string:"+strconv.Quote(s))
		check(m, "SubAll", S, nil, "string:"+strconv.Quote(s))
		var rg, rk []int
		var rany []string
		for i, c := range s {
			rg = append(rg, i, int(c))
			rk = append(rk, i)
			rany = append(rany, fmt.Sprintf("int32:%d", i), fmt.Sprintf("int32:%d", c))
		}
		check(m, "Range", S, nil, c13ints("int32", rg...))
		check(m, "RangeAny", S, nil, "[]any["+strings.Join(rany, " ")+"]")
		check(m, "RangeKeys", S, nil, c13ints("int32", rk...))
		check(m, "RangeCount", S, nil, fmt.Sprintf("int32:%d", utf8.RuneCountInString(s)))
		var bs []int
		for _, b := range []byte(s) {
			bs = append(bs, int(b))
		}
		check(m, "Bytes", S, nil, c13ints("uint8", bs...))
		check(m, "RoundTrip", S, nil, "string:"+strconv.Quote(s))
		var rs []int
		for _, c := range []rune(s) {
			rs = append(rs, int(c))
		}
		check(m, "Runes", S, nil, c13ints("int32", rs...))
		check(m, "RuneTrip", S, nil, "string:"+strconv.Quote(string([]rune(s))))
		check(m, "RunesBack", S, nil, "string:"+strconv.Quote(string([]rune(s))))
		check(m, "MutateCopy", S, nil, "string:"+strconv.Quote(s))
		check(m, "Print", S, nil, strconv.Quote(s+"\n"))
		for _, t := range strs {
			n := 0
			if s == t {
				n += 1
			}
			if s != t {
				n += 2
			}
			if s < t {
				n += 4
			}
			if s <= t {
				n += 8
			}
			if s > t {
				n += 16
			}
			if s >= t {
				n += 32
			}
			check(m, "Cmp", []string{s, t}, nil, fmt.Sprintf("int32:%d", n))
			if len(t) <= 4 || k%5 == 0 {
				check(m, "Concat", []string{s, t}, nil, "string:"+strconv.Quote(s+t))
				check(m, "ConcatRev", []string{s, t}, nil, "string:"+strconv.Quote(t+s))
				check(m, "ConcatLocals", []string{s, t}, nil, fmt.Sprintf("[]string[string:%s string:%s string:%s string:%s string:%s]", strconv.Quote(s+t), strconv.Quote(t+s), strconv.Quote(s+"|"+t), strconv.Quote(t+s), strconv.Quote("|"+s+"|")))
				check(m, "ConcatAlias", []string{s, t}, nil, fmt.Sprintf("[]string[string:%s string:%s string:%s string:%s]", strconv.Quote(s+t), strconv.Quote(s), strconv.Quote(t), strconv.Quote(t)))
			}
		}
	})
	// string(rune)
	func() {
		m := newVM()
		if m == nil {
			return
		}
		defer m.Close()
		for _, rn := range []int{0, 'a', 0x7f, 0x80, 0xe9, 0x7ff, 0x800, 0x20ac, 0xffff, 0x10000, 0x1f410, 0xd800, 0xdfff, 0x10ffff, 0x110000, -1} {
			check(m, "FromRune", nil, []int{rn}, "string:"+strconv.Quote(string(rune(rn))))
		}
	}()
	// literals
	var lits []string
	for _, e := range []string{`\a`, `\b`, `\f`, `\n`, `\r`, `\t`, `\v`, `\\`, `\"`} {
		lits = append(lits, `"`+e+`"`, `"x`+e+`y"`)
	}
	for i := 0; i < 256; i++ {
		lits = append(lits, fmt.Sprintf(`"\x%02x"`, i), fmt.Sprintf(`"\%03o"`, i))
	}
	for _, u := range []int{0, 0x41, 0x7f, 0x80, 0x7ff, 0x800, 0xe9, 0x20ac, 0xd7ff, 0xe000, 0xffff} {
		lits = append(lits, fmt.Sprintf(`"\u%04x"`, u), fmt.Sprintf(`"a\u%04Xb"`, u))
	}
	for _, u := range []int{0, 0x41, 0xffff, 0x10000, 0x1f410, 0x10ffff} {
		lits = append(lits, fmt.Sprintf(`"\U%08x"`, u))
	}
	for _, raw := range []string{"", "a", `\n`, `\x41`, `"quoted"`, "é€🐐", `a\`, `\\`, "line1\nline2", `'`, `\'`} {
		lits = append(lits, "`"+raw+"`")
	}
	for _, s := range c13strings(2) {
		if utf8.ValidString(s) {
			lits = append(lits, strconv.Quote(s), `"`+s+`"`)
		}
	}
	// raw strings containing carriage returns (Go discards them) and other control bytes
	for _, raw := range []string{"a\rb", "l1\r\nl2", "\r", "x\r\r\ny\r", "tab\there", "bell\x07char"} {
		lits = append(lits, "`"+raw+"`")
	}
	var chars []string
	for _, e := range []string{`\a`, `\b`, `\f`, `\n`, `\r`, `\t`, `\v`, `\\`, `\'`, `a`, `é`, `€`, `🐐`, `"`, `0`, ` `, `\x00`, `\x41`, `\xff`, `\000`, `\101`, `\377`, `A`, `é`, `€`, `￿`, `\U0001f410`, `\U0010ffff`} {
		chars = append(chars, "'"+e+"'")
	}
	par.DoChunk(len(lits)+len(chars), 16, func(k int) {
		m := goat.New()
		defer m.Close()
		r.Eval(1)
		if k < len(lits) {
			lit := lits[k]
			want, err := strconv.Unquote(lit)
			if err != nil {
				r.HarnessError("literal %s is not valid Go: %v", lit, err)
				return
			}
			for _, form := range []string{"%s", "x := %s\nx", "len(%s)"} {
				res := m.Eval(nil, fmt.Sprintf(form, lit))
				got := "error"
				if res.HostPanic != nil {
					got = fmt.Sprintf("HOST PANIC %v", res.HostPanic)
				} else if res.Err == nil && len(res.Rets) == 1 {
					got = c13render(m, res.Rets[0])
				}
				w := "string:" + strconv.Quote(want)
				if strings.HasPrefix(form, "len") {
					w = fmt.Sprintf("int32:%d", len(want))
				}
				r.Nontrivial(form + lit)
				if got != w {
					r.Fail(&report.Case{Kind: "literal", Key: fmt.Sprintf(form, lit), Want: w, Got: got})
				}
			}
			return
		}
		lit := chars[k-len(lits)]
		rn, _, _, err := strconv.UnquoteChar(lit[1:len(lit)-1], '\'')
		if err != nil {
			r.HarnessError("rune literal %s is not valid Go: %v", lit, err)
			return
		}
		for _, form := range []string{"%s", "x := %s\nx", "string(%s)", "%s + 1"} {
			res := m.Eval(nil, fmt.Sprintf(form, lit))
			got := "error"
			if res.HostPanic != nil {
				got = fmt.Sprintf("HOST PANIC %v", res.HostPanic)
			} else if res.Err == nil && len(res.Rets) == 1 {
				got = c13render(m, res.Rets[0])
			}
			var w string
			switch form {
			case "string(%s)":
				w = "string:" + strconv.Quote(string(rn))
			case "%s + 1":
				w = fmt.Sprintf("number:%d", rn+1)
			case "%s":
				w = fmt.Sprintf("number:%d", rn)
			default:
				w = fmt.Sprintf("int32:%d", rn)
			}
			r.Nontrivial(form + lit)
			// the property fixes the value a rune literal denotes, not goatlang's tag for an untyped constant
			if form != "string(%s)" {
				if i := strings.IndexByte(got, ':'); i >= 0 && got != "error" {
					got = "value" + got[i:]
				}
				w = "value" + w[strings.IndexByte(w, ':'):]
			}
			if got != w {
				r.Fail(&report.Case{Kind: "literal", Key: fmt.Sprintf(form, lit), Want: w, Got: got})
			}
		}
	})
	// the same body spelled as a raw and as an interpreted literal in ONE program, and in two Evals on ONE VM
	for _, body := range []string{`\n`, `\t`, `a\tb`, `\x41`, `\\`, `\u00e9`, `\101`, `q\"q`, `plain`, `\r\n`} {
		interp := `"` + body + `"`
		raw := "`" + body + "`"
		iv, err := strconv.Unquote(interp)
		if err != nil {
			r.HarnessError("literal %s is not valid Go: %v", interp, err)
			continue
		}
		rv, _ := strconv.Unquote(raw)
		want := fmt.Sprintf("%d %d %v %d %d", len(iv), len(rv), iv == rv, len(iv+rv), len(rv+iv))
		for _, prog := range []string{
			"a := " + interp + "\nb := " + raw + "\nfmt.Println(len(a), len(b), a == b, len(a+b), len(b+a))\n",
			"b := " + raw + "\na := " + interp + "\nfmt.Println(len(a), len(b), a == b, len(a+b), len(b+a))\n",
			"func fa() string {\n\treturn " + interp + "\n}\nfunc fb() string {\n\treturn " + raw + "\n}\nfmt.Println(len(fa()), len(fb()), fa() == fb(), len(fa()+fb()), len(fb()+fa()))\n",
		} {
			m := goat.New()
			res := m.Eval(nil, "import \"fmt\"\n"+prog)
			got := strings.TrimSpace(res.Out)
			if res.Failed() {
				got = res.String()
			}
			m.Close()
			r.Eval(1)
			r.Nontrivial("both spellings " + prog)
			if got != want {
				r.Fail(&report.Case{Kind: "program", Key: "import \"fmt\"\n" + prog, Want: want, Got: got})
			}
		}
		// two Evals on one VM: a function compiled first must keep returning its own literal
		m := goat.New()
		imports := map[string]string{}
		r1 := m.Eval(nil, "import \"fmt\"\nfunc first() string {\n\treturn "+interp+"\n}\n", goatlang.WithEvalImports(imports))
		r2 := m.Eval(nil, "second := "+raw+"\nfmt.Println(len(first()), len(second), first() == second)\n", goatlang.WithEvalImports(imports))
		got := strings.TrimSpace(r2.Out)
		if r1.Failed() || r2.Failed() {
			got = r1.String() + r2.String()
		}
		m.Close()
		r.Eval(1)
		w2 := fmt.Sprintf("%d %d %v", len(iv), len(rv), iv == rv)
		if got != w2 {
			r.Fail(&report.Case{Kind: "two-evals", Key: "first() returns " + interp + "; a later Eval uses " + raw, Want: w2, Got: got})
		}
	}
	r.Set("strings", len(strs))
	r.Set("literals", len(lits)+len(chars))
}

func c13rerun(c *report.Case) (bool, string) {
	m := goat.New()
	defer m.Close()
	if c.Kind == "program" {
		res := m.Eval(nil, c.Key)
		got := strings.TrimSpace(res.Out)
		if res.Failed() {
			got = res.String()
		}
		return got != c.Want, got
	}
	if c.Kind == "two-evals" {
		return true, "re-run bin/check C13 quick (two-step case)"
	}
	if c.Kind == "literal" {
		res := m.Eval(nil, c.Key)
		got := "error"
		if res.HostPanic != nil {
			got = fmt.Sprintf("HOST PANIC %v", res.HostPanic)
		} else if res.Err == nil && len(res.Rets) == 1 {
			got = c13render(m, res.Rets[0])
		}
		if strings.HasPrefix(c.Want, "value:") {
			if i := strings.IndexByte(got, ':'); i >= 0 && got != "error" {
				got = "value" + got[i:]
			}
		}
		return got != c.Want, got
	}
	var in c13case
	if !remarshal(c.Input, &in) {
		return false, "bad input"
	}
	if lr := m.Load(goat.FS(map[string]string{"st/st.go": c13lib}), "st"); lr.Failed() {
		return true, lr.String()
	}
	var ss []string
	for _, q := range in.Strs {
		s, _ := strconv.Unquote(q)
		ss = append(ss, s)
	}
	got := c13do(m, in.Op, ss, in.Ints)
	return got != c.Want, got
}

func init() { register("C13", c13run, c13rerun) }
