package props

import (
	"errors"
	"fmt"
	"math"
	"strings"

	"github.com/philhassey/goatlang"

	"verif/internal/goat"
	"verif/internal/par"
	"verif/internal/report"
)

// C19 — the embedding API passes values faithfully in both directions.
//
// (a) constructors x accessors over each constructor's domain, and VM.Set/Get;
// (b) every NewFunc form x arity 0..6 x result count 0..4 x variadic tail 0..3
//     x 6 call contexts: the native records what it received, the script
//     prints what came back;
// (c) VM.Call / VM.Func on script functions and natives, every requested
//     result count 0..declared and declared+1, wrong argument counts;
// (d) panics in native callbacks at nesting depth 1..3 and in sort comparators.

type c19cfg struct {
	Form, Arity, Rets, Tail, Ctx int
	Typed                        bool
}

func (c c19cfg) String() string {
	return fmt.Sprintf("form=%d arity=%d results=%d variadic-tail=%d context=%d typed-args=%v", c.Form, c.Arity, c.Rets, c.Tail, c.Ctx, c.Typed)
}

var c19forms = []string{"func(*VM)", "func(*VM) Value", "func(*VM, []Value)", "func(*VM, []Value) Value", "func(*VM, []Value) []Value", "func(*VM, []Value, ...Value) []Value"}
var c19ctxs = []string{"statement", "operand of 1 + f()*2", "argument of another native", "multi-assign", "argument of a script function", "in a loop with live locals", "return f() inside a function literal nested in a function with another result count", "var r0, r1 int = f() between live locals", "var r0, r1 = f() between live locals", "r0, r1 = f() assigning declared variables", "_, r1 := f() with blanks"}

// c19exec runs one configuration; returns what the native saw, the script output, and the expectation for both.
func c19exec(c c19cfg) (got, want string) {
	m := goat.New()
	defer m.Close()
	// The recorder renders its arguments at the time of the call (argument slices may alias the VM stack;
	// the property speaks about what the native receives, not about retention after it returned).
	var seen []string
	rec := func(tag string, args []goatlang.Value) {
		var p []string
		for _, a := range args {
			if c.Typed || tag == "Show" {
				p = append(p, a.String()+":"+m.TypeOf(a))
			} else {
				p = append(p, a.String()) // constant arguments: the property fixes the value, not goatlang's tag for an untyped constant
			}
		}
		seen = append(seen, tag+"("+strings.Join(p, ",")+")")
	}
	render := func() string { return strings.Join(seen, " ") }
	results := func(n int) []goatlang.Value {
		out := make([]goatlang.Value, n)
		for i := range out {
			out[i] = goatlang.Int(101 + i)
		}
		return out
	}
	fixed := c.Arity // number of fixed parameters
	var fn goatlang.Value
	switch c.Form {
	case 0:
		fn = goatlang.NewFunc(0, 0, func(vm *goatlang.VM) { rec("F", nil) })
	case 1:
		fn = goatlang.NewFunc(0, 1, func(vm *goatlang.VM) goatlang.Value { rec("F", nil); return goatlang.Int(101) })
	case 2:
		fn = goatlang.NewFunc(c.Arity, 0, func(vm *goatlang.VM, args []goatlang.Value) { rec("F", args) })
	case 3:
		fn = goatlang.NewFunc(c.Arity, 1, func(vm *goatlang.VM, args []goatlang.Value) goatlang.Value {
			rec("F", args)
			return goatlang.Int(101)
		})
	case 4:
		fn = goatlang.NewFunc(c.Arity, c.Rets, func(vm *goatlang.VM, args []goatlang.Value) []goatlang.Value {
			rec("F", args)
			return results(c.Rets)
		})
	case 5:
		// argc counts the variadic slot
		fn = goatlang.NewFunc(c.Arity+1, c.Rets, func(vm *goatlang.VM, args []goatlang.Value, vargs ...goatlang.Value) []goatlang.Value {
			rec("F", args)
			rec("V", vargs)
			return results(c.Rets)
		})
	}
	m.VM.Set("host.F", fn)
	m.VM.Set("host.Show", goatlang.NewFunc(1, 0, func(vm *goatlang.VM, args []goatlang.Value) { rec("Show", args) }))
	// arguments
	nargs := fixed
	if c.Form == 5 {
		nargs += c.Tail
	}
	var decl, args, wantArgs, wantV []string
	typs := []string{"int", "string", "float64", "bool", "uint8", "int8"}
	for i := 0; i < nargs; i++ {
		var lit, shown string
		if c.Typed {
			switch typs[i%len(typs)] {
			case "int":
				lit, shown = fmt.Sprint(11+i), fmt.Sprintf("%d:int32", 11+i)
			case "string":
				lit, shown = fmt.Sprintf("\"s%d\"", i), fmt.Sprintf("s%d:string", i)
			case "float64":
				lit, shown = fmt.Sprintf("%d.5", i), fmt.Sprintf("%d.5:float64", i)
			case "bool":
				lit, shown = "true", "true:bool"
			case "uint8":
				lit, shown = fmt.Sprint(200+i), fmt.Sprintf("%d:uint8", 200+i)
			case "int8":
				lit, shown = fmt.Sprint(-100-i), fmt.Sprintf("%d:int8", -100-i)
			}
			decl = append(decl, fmt.Sprintf("\tvar a%d %s = %s\n", i, typs[i%len(typs)], lit))
			args = append(args, fmt.Sprintf("a%d", i))
		} else {
			lit, shown = fmt.Sprint(11+i), fmt.Sprint(11+i)
			args = append(args, lit)
		}
		if i < fixed {
			wantArgs = append(wantArgs, shown)
		} else {
			wantV = append(wantV, shown)
		}
	}
	call := "host.F(" + strings.Join(args, ", ") + ")"
	rets := c.Rets
	var body, wantOut string
	wantCalls := 1
	switch c.Ctx {
	case 0:
		body = "\t" + call + "\n"
	case 1:
		body = "\tfmt.Println(1 + " + call + "*2)\n"
		wantOut = "203\n"
	case 2:
		body = "\thost.Show(" + call + ")\n"
	case 3:
		var rs, w []string
		for i := 0; i < rets; i++ {
			rs = append(rs, fmt.Sprintf("r%d", i))
			w = append(w, fmt.Sprint(101+i))
		}
		body = "\t" + strings.Join(rs, ", ") + " := " + call + "\n\tfmt.Println(" + strings.Join(rs, ", ") + ")\n"
		wantOut = strings.Join(w, " ") + "\n"
	case 4:
		body = "\tfmt.Println(id(" + call + "))\n"
		wantOut = "101\n"
	case 6:
		var rs, w, rt []string
		for i := 0; i < rets; i++ {
			rs = append(rs, fmt.Sprintf("r%d", i))
			w = append(w, fmt.Sprint(101+i))
			rt = append(rt, "int")
		}
		sig := " int"
		if rets > 1 {
			sig = " (" + strings.Join(rt, ", ") + ")"
		}
		// the enclosing function (Main) has no results, the literal has `rets`
		body = "\tg := func()" + sig + " {\n\t\treturn " + call + "\n\t}\n\t" + strings.Join(rs, ", ") + " := g()\n\tfmt.Println(" + strings.Join(rs, ", ") + ")\n"
		wantOut = strings.Join(w, " ") + "\n"
	case 7, 8, 9, 10:
		var rs, lhs, w []string
		for i := 0; i < rets; i++ {
			rs = append(rs, fmt.Sprintf("r%d", i))
			w = append(w, fmt.Sprint(101+i))
		}
		lhs = append(lhs, rs...)
		var stmt string
		switch c.Ctx {
		case 7:
			stmt = "\tvar " + strings.Join(rs, ", ") + " int = " + call + "\n"
		case 8:
			stmt = "\tvar " + strings.Join(rs, ", ") + " = " + call + "\n"
		case 9:
			stmt = "\tvar " + strings.Join(rs, ", ") + " int\n\t" + strings.Join(rs, ", ") + " = " + call + "\n"
		case 10:
			// every other result goes to the blank identifier (the last one is always kept)
			for i := rets - 2; i >= 0; i -= 2 {
				lhs[i] = "_"
				w[i] = ""
			}
			stmt = "\t" + strings.Join(lhs, ", ") + " := " + call + "\n"
		}
		var shown, ww []string
		for i := range lhs {
			if lhs[i] != "_" {
				shown = append(shown, lhs[i])
				ww = append(ww, w[i])
			}
		}
		body = "\tp := 7\n" + stmt + "\tq := 8\n\tfmt.Println(p, q, " + strings.Join(shown, ", ") + ")\n"
		wantOut = "7 8 " + strings.Join(ww, " ") + "\n"
	case 5:
		// the two calls pass different integers (the int-typed/constant arguments get i*1000 added)
		var largs []string
		for i, a := range args {
			if !c.Typed || typs[i%len(typs)] == "int" {
				a = a + " + i*1000"
			}
			largs = append(largs, a)
		}
		body = "\tp, q, r := 7, 8, 9\n\tfor i := 0; i < 2; i++ {\n\t\tx := host.F(" + strings.Join(largs, ", ") + ")\n\t\tfmt.Println(p, q, r, i, x)\n\t}\n"
		wantOut = "7 8 9 0 101\n7 8 9 1 101\n"
		wantCalls = 2
	}
	src := "package p\n\nimport (\n\t\"fmt\"\n\t\"host\"\n)\n\nfunc id(a int) int {\n\treturn a\n}\n\nfunc Main() {\n" + strings.Join(decl, "") + body + "\tfmt.Println(\"end\")\n}\n"
	wantOut += "end\n"
	var ws []string
	bump := func(shown []string, base, k int) []string {
		if c.Ctx != 5 || k == 0 {
			return shown
		}
		out := make([]string, len(shown))
		for i, sh := range shown {
			out[i] = sh
			if !c.Typed {
				out[i] = fmt.Sprint(11 + base + i + k*1000)
			} else if typs[(base+i)%len(typs)] == "int" {
				out[i] = fmt.Sprintf("%d:int32", 11+base+i+k*1000)
			}
		}
		return out
	}
	for k := 0; k < wantCalls; k++ {
		if c.Form >= 2 {
			ws = append(ws, "F("+strings.Join(bump(wantArgs, 0, k), ",")+")")
		} else {
			ws = append(ws, "F()")
		}
		if c.Form == 5 {
			ws = append(ws, "V("+strings.Join(bump(wantV, fixed, k), ",")+")")
		}
		if c.Ctx == 2 {
			ws = append(ws, "Show(101:int32)")
		}
	}
	want = strings.Join(ws, " ") + " | " + wantOut
	lr := m.Load(goat.FS(map[string]string{"p/p.go": src}), "p")
	if lr.Failed() {
		return "LOAD " + lr.String() + "\n" + src, want
	}
	res := m.Call("p.Main", 0)
	if res.Failed() {
		return render() + " | " + res.String() + "\n" + src, want
	}
	return render() + " | " + res.Out, want
}

func c19configs() []c19cfg {
	var out []c19cfg
	for form := 0; form < 6; form++ {
		for arity := 0; arity <= 6; arity++ {
			if form < 2 && arity > 0 {
				continue
			}
			for rets := 0; rets <= 4; rets++ {
				switch form {
				case 0, 2:
					if rets != 0 {
						continue
					}
				case 1, 3:
					if rets != 1 {
						continue
					}
				}
				for tail := 0; tail <= 3; tail++ {
					if form != 5 && tail > 0 {
						continue
					}
					for ctx := 0; ctx < len(c19ctxs); ctx++ {
						need := 0
						switch ctx {
						case 1, 2, 4, 5:
							need = 1
						case 3, 6, 7, 8, 9, 10:
							need = 1
						}
						if rets < need {
							continue
						}
						for _, typed := range []bool{false, true} {
							if ctx == 6 && typed {
								continue // a function literal does not capture the enclosing function's locals
							}
							out = append(out, c19cfg{form, arity, rets, tail, ctx, typed})
						}
					}
				}
			}
		}
	}
	return out
}

// (c) Call / Func ---------------------------------------------------------------

func c19callChecks(r *report.Run) {
	for n := 0; n <= 6; n++ {
		for mrets := 0; mrets <= 4; mrets++ {
			var ps, rs, rts []string
			for i := 0; i < n; i++ {
				ps = append(ps, fmt.Sprintf("a%d int", i))
			}
			for i := 0; i < mrets; i++ {
				if n > 0 {
					rs = append(rs, fmt.Sprintf("a%d*10 + %d", i%n, i))
				} else {
					rs = append(rs, fmt.Sprint(500+i))
				}
				rts = append(rts, "int")
			}
			ret := ""
			if mrets > 0 {
				ret = "\treturn " + strings.Join(rs, ", ") + "\n"
			}
			src := fmt.Sprintf("package q\n\nvar calls int\n\nfunc S(%s) (%s) {\n\tcalls++\n%s}\n", strings.Join(ps, ", "), strings.Join(rts, ", "), ret)
			if mrets == 1 {
				src = strings.Replace(src, "(int)", "int", 1)
			}
			if mrets == 0 {
				src = strings.Replace(src, " ()", "", 1)
			}
			for _, via := range []string{"Call", "Func"} {
				for k := 0; k <= mrets+1; k++ {
					for _, dn := range []int{0, -1, 1} {
						if n+dn < 0 {
							continue
						}
						m := goat.New()
						lr := m.Load(goat.FS(map[string]string{"q/q.go": src}), "q")
						if lr.Failed() {
							r.Fail(&report.Case{Kind: "call", Key: src, Want: "loads", Got: lr.String()})
							m.Close()
							continue
						}
						var params []goatlang.Value
						for i := 0; i < n+dn; i++ {
							params = append(params, goatlang.Int(i+1))
						}
						var res goat.Result
						if via == "Call" {
							res = m.Call("q.S", k, params...)
						} else {
							res = m.Func(m.VM.Get("q.S"), k, params...)
						}
						r.Eval(1)
						key := fmt.Sprintf("VM.%s on a script function with %d parameters and %d results: %d arguments given, %d results requested", via, n, mrets, n+dn, k)
						r.Nontrivial(key)
						want := "error"
						if dn == 0 && k <= mrets {
							var w []string
							for i := 0; i < k; i++ {
								if n > 0 {
									w = append(w, fmt.Sprint((i%n+1)*10+i))
								} else {
									w = append(w, fmt.Sprint(500+i))
								}
							}
							want = fmt.Sprintf("%d values [%s]", k, strings.Join(w, " "))
						}
						got := "error"
						if res.HostPanic != nil {
							got = fmt.Sprintf("HOST PANIC %v", res.HostPanic)
						} else if res.Err == nil {
							var g []string
							for _, v := range res.Rets {
								g = append(g, v.String())
							}
							got = fmt.Sprintf("%d values [%s]", len(res.Rets), strings.Join(g, " "))
						}
						if got != want {
							r.Fail(&report.Case{Kind: "call", Key: key, Input: map[string]any{"via": via, "n": n, "m": mrets, "k": k, "dn": dn}, Want: want, Got: got})
						}
						// the VM must still work afterwards
						if dn != 0 || k > mrets {
							var ok []goatlang.Value
							for i := 0; i < n; i++ {
								ok = append(ok, goatlang.Int(i+1))
							}
							again := m.Call("q.S", mrets, ok...)
							if again.Failed() {
								r.Fail(&report.Case{Kind: "call", Key: key + " -- then a correct call on the same VM", Want: "works", Got: again.String()})
							}
						}
						m.Close()
					}
				}
			}
		}
	}
}

// (a) constructors x accessors -----------------------------------------------------

func c19roundTrips(r *report.Run) {
	m := goat.New()
	defer m.Close()
	fail := func(what string, want, got any) {
		r.Fail(&report.Case{Kind: "roundtrip", Key: what, Want: fmt.Sprint(want), Got: fmt.Sprint(got)})
	}
	chk := func(what string, want, got any) {
		r.Eval(1)
		if want != got {
			fail(what, want, got)
		}
	}
	viaVM := func(v goatlang.Value) goatlang.Value {
		m.VM.Set("main.slot", v)
		return m.VM.Get("main.slot")
	}
	for i := -128; i <= 127; i++ {
		v := goatlang.Int8(int8(i))
		chk(fmt.Sprintf("Int8(%d).Int8()", i), int8(i), v.Int8())
		chk(fmt.Sprintf("Int8(%d).Int()", i), i, v.Int())
		chk(fmt.Sprintf("Int8(%d).Float64()", i), float64(i), v.Float64())
		chk(fmt.Sprintf("Int8(%d) type", i), "int8", m.TypeOf(v))
		chk(fmt.Sprintf("Set/Get Int8(%d)", i), int8(i), viaVM(v).Int8())
		chk(fmt.Sprintf("Int8(%d).String()", i), fmt.Sprint(i), v.String())
	}
	for i := 0; i <= 255; i++ {
		for _, v := range []goatlang.Value{goatlang.Uint8(uint8(i)), goatlang.Byte(byte(i))} {
			chk(fmt.Sprintf("Uint8(%d).Uint8()", i), uint8(i), v.Uint8())
			chk(fmt.Sprintf("Uint8(%d).Byte()", i), byte(i), v.Byte())
			chk(fmt.Sprintf("Uint8(%d).Int()", i), i, v.Int())
			chk(fmt.Sprintf("Uint8(%d) type", i), "uint8", m.TypeOf(v))
			chk(fmt.Sprintf("Set/Get Uint8(%d)", i), uint8(i), viaVM(v).Uint8())
			chk(fmt.Sprintf("Uint8(%d).String()", i), fmt.Sprint(i), v.String())
		}
	}
	for _, f := range c4values(c4i32) {
		i := int32(f)
		v := goatlang.Int32(i)
		chk(fmt.Sprintf("Int32(%d).Int32()", i), i, v.Int32())
		chk(fmt.Sprintf("Int32(%d).Int()", i), int(i), v.Int())
		chk(fmt.Sprintf("Int(%d).Int32()", i), i, goatlang.Int(int(i)).Int32())
		chk(fmt.Sprintf("Int(%d).Int()", i), int(i), goatlang.Int(int(i)).Int())
		chk(fmt.Sprintf("Int(%d).Float64()", i), float64(i), goatlang.Int(int(i)).Float64())
		chk(fmt.Sprintf("Int(%d).String()", i), fmt.Sprint(i), goatlang.Int(int(i)).String())
		chk(fmt.Sprintf("Int(%d) type", i), "int32", m.TypeOf(goatlang.Int(int(i))))
		chk(fmt.Sprintf("Int32(%d).Float64()", i), float64(i), v.Float64())
		chk(fmt.Sprintf("Int32(%d) type", i), "int32", m.TypeOf(v))
		chk(fmt.Sprintf("Set/Get Int32(%d)", i), i, viaVM(v).Int32())
		chk(fmt.Sprintf("Int32(%d).String()", i), fmt.Sprint(i), v.String())
	}
	for _, f := range c4values(c4u32) {
		u := uint32(f)
		v := goatlang.Uint32(u)
		chk(fmt.Sprintf("Uint32(%d).Uint32()", u), u, v.Uint32())
		chk(fmt.Sprintf("Uint32(%d).Uint()", u), uint(u), v.Uint())
		chk(fmt.Sprintf("Uint(%d).Uint32()", u), u, goatlang.Uint(uint(u)).Uint32())
		chk(fmt.Sprintf("Uint(%d).Uint()", u), uint(u), goatlang.Uint(uint(u)).Uint())
		chk(fmt.Sprintf("Uint(%d).Float64()", u), float64(u), goatlang.Uint(uint(u)).Float64())
		chk(fmt.Sprintf("Uint(%d).String()", u), fmt.Sprint(u), goatlang.Uint(uint(u)).String())
		chk(fmt.Sprintf("Uint(%d) type", u), "uint32", m.TypeOf(goatlang.Uint(uint(u))))
		chk(fmt.Sprintf("Uint32(%d).Float64()", u), float64(u), v.Float64())
		chk(fmt.Sprintf("Uint32(%d) type", u), "uint32", m.TypeOf(v))
		chk(fmt.Sprintf("Set/Get Uint32(%d)", u), u, viaVM(v).Uint32())
		chk(fmt.Sprintf("Uint32(%d).String()", u), fmt.Sprint(u), v.String())
	}
	for _, f := range c4values(c4f64) {
		v := goatlang.Float64(f)
		chk(fmt.Sprintf("Float64(%v).Float64() bits", f), math.Float64bits(f), math.Float64bits(v.Float64()))
		chk(fmt.Sprintf("Set/Get Float64(%v)", f), math.Float64bits(f), math.Float64bits(viaVM(v).Float64()))
		chk(fmt.Sprintf("Float64(%v) type", f), "float64", m.TypeOf(v))
	}
	for _, b := range []bool{true, false} {
		chk(fmt.Sprintf("Bool(%v).Bool()", b), b, goatlang.Bool(b).Bool())
		chk(fmt.Sprintf("Set/Get Bool(%v)", b), b, viaVM(goatlang.Bool(b)).Bool())
		chk(fmt.Sprintf("Bool(%v).String()", b), fmt.Sprint(b), goatlang.Bool(b).String())
	}
	for _, s := range c13strings(2) {
		chk(fmt.Sprintf("String(%q).String()", s), s, goatlang.String(s).String())
		chk(fmt.Sprintf("Set/Get String(%q)", s), s, viaVM(goatlang.String(s)).String())
		chk(fmt.Sprintf("String(%q).Len()", s), len(s), goatlang.String(s).Len())
	}
	chk("Nil().IsNil()", true, goatlang.Nil().IsNil())
	chk("Int(0).IsNil()", false, goatlang.Int(0).IsNil())
	chk("String(\"\").IsNil()", false, goatlang.String("").IsNil())
	// slices and maps
	for n := 0; n <= 4; n++ {
		d := make([]goatlang.Value, n)
		for i := range d {
			d[i] = goatlang.Int(i * 3)
		}
		s := goatlang.NewSlice(goatlang.TypeInt32, d)
		chk(fmt.Sprintf("NewSlice(%d).Len()", n), n, s.Len())
		for i := 0; i < n; i++ {
			v, ok := s.Get(goatlang.Int(i))
			chk(fmt.Sprintf("NewSlice(%d).Get(%d)", n, i), fmt.Sprint(i*3, true), fmt.Sprint(v.Int(), ok))
		}
		chk(fmt.Sprintf("Set/Get NewSlice(%d)", n), n, viaVM(s).Len())
	}
	for _, kd := range c10kinds {
		var in []goatlang.Value
		for i, k := range kd.keys {
			in = append(in, k, goatlang.Int(i+40))
		}
		mp := goatlang.NewMap(kd.kt, goatlang.TypeInt32, in)
		chk("NewMap("+kd.name+").Len()", len(kd.keys), mp.Len())
		for i, k := range kd.keys {
			v, ok := mp.Get(k)
			chk(fmt.Sprintf("NewMap(%s).Get(k%d)", kd.name, i), fmt.Sprint(i+40, true), fmt.Sprint(v.Int(), ok))
		}
	}
	// Wrap / Unwrap and Error
	e := goatlang.Error(errors.New("boom"))
	chk("Error(err).Unwrap() != nil", true, e.Unwrap() != nil)
	chk("Wrap(o).Unwrap() identity", true, goatlang.Wrap(e.Unwrap()).Unwrap() == e.Unwrap())
	chk("Int(1).Unwrap()", true, goatlang.Int(1).Unwrap() == nil)
	chk("Error(err).String()", "boom", e.String())
}

// (d) errors ------------------------------------------------------------------------

func c19errorChecks(r *report.Run) {
	for depth := 1; depth <= 3; depth++ {
		for _, kind := range []string{"string", "error", "script-panic", "runtime"} {
			for _, sortKind := range []string{"", "SortFunc", "SortStableFunc"} {
				m := goat.New()
				token := fmt.Sprintf("PLANTED-%d-%s", depth, kind)
				m.VM.Set("host.Boom", goatlang.NewFunc(0, 0, func(vm *goatlang.VM) {
					switch kind {
					case "string":
						panic(token)
					case "error":
						panic(errors.New(token))
					}
				}))
				// host.Reenter(n) calls the script function Level(n) through vm.Func
				m.VM.Set("host.Reenter", goatlang.NewFunc(1, 0, func(vm *goatlang.VM, args []goatlang.Value) {
					if _, err := vm.Call("e.Level", 0, args[0]); err != nil {
						panic(err)
					}
				}))
				fault := "host.Boom()"
				switch kind {
				case "script-panic":
					fault = "panic(\"" + token + "\")"
				case "runtime":
					fault = "s := []int{1}\n\t\t_ = s[zero+3]"
				}
				src := "package e\n\nimport (\n\t\"host\"\n\t\"golang.org/x/exp/slices\"\n)\n\nvar zero = 0\nvar ok = 0\n\nfunc Level(n int) {\n\tif n <= 1 {\n\t\t" + fault + "\n\t\treturn\n\t}\n\thost.Reenter(n - 1)\n}\n\n" +
					"func less(a int, b int) bool {\n\tLevel(" + fmt.Sprint(depth) + ")\n\treturn a < b\n}\n\nfunc Sorted() {\n\ts := []int{3, 1, 2}\n\tslices." + map[string]string{"": "SortFunc", "SortFunc": "SortFunc", "SortStableFunc": "SortStableFunc"}[sortKind] + "(s, less)\n}\n\nfunc Fine() int {\n\tok++\n\treturn ok\n}\n"
				lr := m.Load(goat.FS(map[string]string{"e/e.go": src}), "e")
				r.Eval(1)
				key := fmt.Sprintf("%s raised at nesting depth %d (script -> native -> vm.Call -> script ...)%s", kind, depth, map[bool]string{true: " inside a slices." + sortKind + " comparator", false: ""}[sortKind != ""])
				r.Nontrivial(key)
				if lr.Failed() {
					r.Fail(&report.Case{Kind: "error", Key: key, Want: "package loads", Got: lr.String() + "\n" + src})
					m.Close()
					continue
				}
				var res goat.Result
				if sortKind == "" {
					res = m.Call("e.Level", 0, goatlang.Int(depth))
				} else {
					res = m.Call("e.Sorted", 0)
				}
				wantTok := token
				if kind == "runtime" {
					wantTok = "index out of range"
				}
				switch {
				case res.HostPanic != nil:
					r.Fail(&report.Case{Kind: "error", Key: key, Want: "an error from the outer call", Got: fmt.Sprintf("HOST PANIC %v", res.HostPanic)})
				case res.Err == nil:
					r.Fail(&report.Case{Kind: "error", Key: key, Want: "an error from the outer call", Got: "success"})
				case !strings.Contains(res.Err.Error(), wantTok):
					r.Fail(&report.Case{Kind: "error", Key: key, Want: "error mentioning " + wantTok, Got: res.Err.Error()})
				}
				again := m.Call("e.Fine", 1)
				if again.Failed() || len(again.Rets) != 1 || again.Rets[0].Int() != 1 {
					r.Fail(&report.Case{Kind: "error", Key: key + " -- then a call on the same VM", Want: "1", Got: again.String()})
				}
				m.Close()
			}
		}
	}
}

// (e) re-entrancy: a native that is re-entered (through vm.Call -> script -> the same native) must still hold
// exactly the arguments it received when the nested call returns.
func c19reentry(r *report.Run) {
	for form := 4; form <= 5; form++ {
		for arity := 1; arity <= 3; arity++ {
			for tail := 0; tail <= 3; tail++ {
				if form == 4 && tail > 0 {
					continue
				}
				for depth := 1; depth <= 3; depth++ {
					m := goat.New()
					var log []string
					show := func(vs []goatlang.Value) string {
						var p []string
						for _, v := range vs {
							p = append(p, v.String())
						}
						return strings.Join(p, ",")
					}
					body := func(vm *goatlang.VM, args []goatlang.Value, vargs []goatlang.Value) {
						before := show(args) + "|" + show(vargs)
						level := args[0].Int()
						if level > 0 {
							if _, err := vm.Call("p.Again", 0, goatlang.Int(level-1)); err != nil {
								panic(err)
							}
						}
						after := show(args) + "|" + show(vargs)
						if before != after {
							log = append(log, fmt.Sprintf("level %d: had (%s), after the nested call (%s)", level, before, after))
						} else {
							log = append(log, fmt.Sprintf("level %d ok (%s)", level, before))
						}
					}
					if form == 4 {
						m.VM.Set("host.R", goatlang.NewFunc(arity, 0, func(vm *goatlang.VM, args []goatlang.Value) []goatlang.Value {
							body(vm, args, nil)
							return nil
						}))
					} else {
						m.VM.Set("host.R", goatlang.NewFunc(arity+1, 0, func(vm *goatlang.VM, args []goatlang.Value, vargs ...goatlang.Value) []goatlang.Value {
							body(vm, args, vargs)
							return nil
						}))
					}
					var extra []string
					for i := 1; i < arity+tail; i++ {
						extra = append(extra, fmt.Sprintf("n*100 + %d", i))
					}
					call := "host.R(" + strings.Join(append([]string{"n"}, extra...), ", ") + ")"
					src := "package p\n\nimport \"host\"\n\nfunc Again(n int) {\n\t" + call + "\n}\n"
					key := fmt.Sprintf("re-entered native: form %s, %d fixed + %d variadic arguments, nesting %d", c19forms[form], arity, tail, depth)
					r.Eval(1)
					r.Nontrivial(key)
					lr := m.Load(goat.FS(map[string]string{"p/p.go": src}), "p")
					if lr.Failed() {
						r.Fail(&report.Case{Kind: "reentry", Key: key, Want: "loads", Got: lr.String()})
						m.Close()
						continue
					}
					res := m.Call("p.Again", 0, goatlang.Int(depth))
					bad := res.Failed()
					for _, l := range log {
						if !strings.Contains(l, " ok ") {
							bad = true
						}
					}
					if bad || len(log) != depth+1 {
						r.Fail(&report.Case{Kind: "reentry", Key: key, Want: "every level still holds its own arguments", Got: strings.Join(log, "; ") + " " + res.Status()})
					}
					m.Close()
				}
			}
		}
	}
}

// (f) a script function redefined with another signature (as the REPL and live reload do) and then invoked
// through Call / Func with the new parameter list
func c19redefine(r *report.Run) {
	defs := []struct {
		sig, body string
		args      []int
		want      string
	}{
		{"(a int, b int) int", "return a*10 + b", []int{1, 2}, "12"},
		{"(a int, b ...int) int", "return a*10 + len(b)", []int{1, 2, 3}, "12"},
		{"(a int, b ...int) int", "return a*10 + len(b)", []int{4}, "40"},
		{"(a int) int", "return a * 7", []int{3}, "21"},
		{"(a ...int) int", "return len(a)", []int{1, 2, 3, 4}, "4"},
		{"(a int, b int, c int) (int, int)", "return a + b, c", []int{1, 2, 3}, "3 3"},
		{"() int", "return 9", nil, "9"},
	}
	for i, first := range defs {
		for j, second := range defs {
			if i == j {
				continue
			}
			for _, via := range []string{"Eval", "Load"} {
				m := goat.New()
				imports := map[string]string{}
				mk := func(d struct {
					sig, body string
					args      []int
					want      string
				}) string {
					return "func S" + d.sig + " {\n\t" + d.body + "\n}\n"
				}
				var r1, r2 goat.Result
				name := "main.S"
				if via == "Eval" {
					r1 = m.Eval(nil, mk(first), goatlang.WithEvalImports(imports))
					r2 = m.Eval(nil, mk(second), goatlang.WithEvalImports(imports))
				} else {
					r1 = m.Load(goat.FS(map[string]string{"q/q.go": "package q\n\n" + mk(first)}), "q")
					r2 = m.Load(goat.FS(map[string]string{"q/q.go": "package q\n\n" + mk(second)}), "q")
					name = "q.S"
				}
				key := fmt.Sprintf("func S%s redefined as func S%s (%s), then called with %v", first.sig, second.sig, via, second.args)
				r.Eval(1)
				r.Nontrivial(key)
				if r1.Failed() || r2.Failed() {
					r.Fail(&report.Case{Kind: "redefine", Key: key, Want: "both definitions are accepted", Got: r1.String() + " / " + r2.String()})
					m.Close()
					continue
				}
				var params []goatlang.Value
				for _, a := range second.args {
					params = append(params, goatlang.Int(a))
				}
				nret := strings.Count(second.want, " ") + 1
				res := m.Call(name, nret, params...)
				got := res.Status()
				if !res.Failed() {
					var g []string
					for _, v := range res.Rets {
						g = append(g, v.String())
					}
					got = strings.Join(g, " ")
				} else {
					got += " " + firstLine(fmt.Sprint(res.Err))
				}
				if got != second.want {
					r.Fail(&report.Case{Kind: "redefine", Key: key, Want: second.want, Got: got})
				}
				m.Close()
			}
		}
	}
}

func c19run(r *report.Run) {
	r.Rule("(a) every constructor over its domain (all 256 values for the 8-bit types, boundary sets otherwise, the C13 string pool, slices of 0..4 elements, maps of 4 key kinds, Wrap/Error/Nil) read back through every matching accessor and through VM.Set/Get; (b) all six NewFunc forms x arity 0..6 x results 0..4 x variadic tail 0..3 x 11 call contexts x {constant, typed} arguments; (c) VM.Call/VM.Func on script functions with 0..6 parameters x 0..4 results x every requested count 0..declared+1 x {right, one fewer, one more} arguments; (f) Call/Func around a rebinding of a package-level function variable by the script or the host; (e) argument slices with spare capacity and results across two calls stay the host's; (d) string/error/script/run-time panics at nesting depth 1..3, also inside sort comparators; non-trivial = every configuration except arity 0 statement calls")
	r.Assume("expected values are what the generator planted", "form func(*VM) can only be registered as a 0->0 function from outside the package (the VM stack is unexported)")
	c19roundTrips(r)
	cfgs := c19configs()
	r.Set("newfunc_configurations", len(cfgs))
	par.DoChunk(len(cfgs), 16, func(i int) {
		c := cfgs[i]
		got, want := c19exec(c)
		r.Eval(1)
		if c.Arity > 0 || c.Ctx > 0 {
			r.Nontrivial(c.String())
		}
		r.Outcome(got)
		if got != want {
			r.Fail(&report.Case{Kind: "newfunc", Key: c.String() + " [" + c19forms[c.Form] + "; " + c19ctxs[c.Ctx] + "]", Input: c, Want: want, Got: got})
		}
		if i%701 == 9 {
			r.Sample(map[string]any{"configuration": c.String(), "form": c19forms[c.Form], "context": c19ctxs[c.Ctx], "native_saw | script_printed": got})
		}
	})
	c19callChecks(r)
	c19errorChecks(r)
	c19reentry(r)
	c19redefine(r)
	c19aliasing(r)
	c19rebind(r)
}

// c19rebind: Call resolves the name at every call: a package-level function variable rebound by the script (directly,
// inside a function, through a tuple assignment) or by the host (VM.Set) between two Calls runs the new function; the
// same through Func(Get(name)).
func c19rebind(r *report.Run) {
	src := "package q\n\nfunc first(a int) int {\n\treturn a*10 + 1\n}\n\nfunc second(a int) int {\n\treturn a*10 + 2\n}\n\nvar handler = first\nvar other = second\n\nfunc Swap() {\n\thandler = second\n}\n\nfunc SwapBoth() {\n\thandler, other = other, handler\n}\n\nfunc Lit() {\n\thandler = func(a int) int {\n\t\treturn a*10 + 3\n\t}\n}\n"
	type step struct {
		name string
		do   func(m *goat.M) goat.Result
		want string
	}
	rebinds := []step{
		{"script function assigns handler = second", func(m *goat.M) goat.Result { return m.Call("q.Swap", 0) }, "12"},
		{"script tuple assignment swaps handler and other", func(m *goat.M) goat.Result { return m.Call("q.SwapBoth", 0) }, "12"},
		{"script assigns a function literal", func(m *goat.M) goat.Result { return m.Call("q.Lit", 0) }, "13"},
		{"host VM.Set to another script function", func(m *goat.M) goat.Result { m.VM.Set("q.handler", m.VM.Get("q.second")); return goat.Result{} }, "12"},
		{"host VM.Set to a native", func(m *goat.M) goat.Result {
			m.VM.Set("q.handler", goatlang.NewFunc(1, 1, func(vm *goatlang.VM, args []goatlang.Value) goatlang.Value { return goatlang.Int(args[0].Int()*10 + 4) }))
			return goat.Result{}
		}, "14"},
	}
	for _, rb := range rebinds {
		for _, via := range []string{"Call", "Func"} {
			for warm := 0; warm <= 2; warm++ { // number of calls made before the rebinding
				m := goat.New()
				if lr := m.Load(goat.FS(map[string]string{"q/q.go": src}), "q"); lr.Failed() {
					r.Fail(&report.Case{Kind: "rebind", Key: src, Want: "loads", Got: lr.String()})
					m.Close()
					continue
				}
				call := func() string {
					var res goat.Result
					if via == "Call" {
						res = m.Call("q.handler", 1, goatlang.Int(1))
					} else {
						res = m.Func(m.VM.Get("q.handler"), 1, goatlang.Int(1))
					}
					if res.Failed() || len(res.Rets) != 1 {
						return res.String()
					}
					return res.Rets[0].String()
				}
				before := "11"
				for i := 0; i < warm; i++ {
					before = call()
				}
				rr := rb.do(m)
				after := call()
				key := fmt.Sprintf("VM.%s(\"q.handler\") %d time(s), then %s, then again", via, warm, rb.name)
				r.Eval(1)
				r.Nontrivial(key)
				if rr.Failed() || before != "11" || after != rb.want {
					r.Fail(&report.Case{Kind: "rebind", Key: key, Want: "11 before, " + rb.want + " after", Got: before + " before, " + after + " after " + rr.String()})
				}
				m.Close()
			}
		}
	}
}

// c19aliasing: what the host passes in stays the host's, what it got back stays what it got: arguments given as a
// slice with spare capacity (0..3 elements of room) are unchanged after the call, and the results of one call do not
// change when another call is made with the same argument slice; for Call and Func, 0..4 parameters, 1..3 results.
func c19aliasing(r *report.Run) {
	for n := 0; n <= 4; n++ {
		for rets := 1; rets <= 3; rets++ {
			var ps, rs, rt []string
			for i := 0; i < n; i++ {
				ps = append(ps, fmt.Sprintf("a%d int", i))
			}
			for k := 0; k < rets; k++ {
				term := fmt.Sprint(k + 1)
				for i := 0; i < n; i++ {
					term += fmt.Sprintf(" + a%d*%d", i, (k+2)*(i+1))
				}
				rs = append(rs, term)
				rt = append(rt, "int")
			}
			src := fmt.Sprintf("package q\n\nfunc S(%s) (%s) {\n\treturn %s\n}\n", strings.Join(ps, ", "), strings.Join(rt, ", "), strings.Join(rs, ", "))
			for room := 0; room <= 3; room++ {
				for _, via := range []string{"Call", "Func"} {
					m := goat.New()
					if lr := m.Load(goat.FS(map[string]string{"q/q.go": src}), "q"); lr.Failed() {
						r.Fail(&report.Case{Kind: "aliasing", Key: src, Want: "loads", Got: lr.String()})
						m.Close()
						continue
					}
					call := func(args []goatlang.Value) goat.Result {
						if via == "Call" {
							return m.Call("q.S", rets, args...)
						}
						return m.Func(m.VM.Get("q.S"), rets, args...)
					}
					args := make([]goatlang.Value, n, n+room)
					for i := range args {
						args[i] = goatlang.Int(i + 1)
					}
					r1 := call(args)
					show := func(vs []goatlang.Value) string {
						var p []string
						for _, v := range vs {
							p = append(p, v.String())
						}
						return strings.Join(p, " ")
					}
					first, argsAfter := show(r1.Rets), show(args)
					for i := range args {
						args[i] = goatlang.Int(10 * (i + 1))
					}
					r2 := call(args)
					key := fmt.Sprintf("VM.%s on a function with %d parameters and %d results, arguments passed as a slice with room for %d more", via, n, rets, room)
					r.Eval(1)
					r.Nontrivial(key)
					var wantArgs []string
					for i := 0; i < n; i++ {
						wantArgs = append(wantArgs, fmt.Sprint(i+1))
					}
					switch {
					case r1.Failed() || r2.Failed():
						r.Fail(&report.Case{Kind: "aliasing", Key: key, Want: "both calls succeed", Got: r1.String() + " / " + r2.String()})
					case argsAfter != strings.Join(wantArgs, " "):
						r.Fail(&report.Case{Kind: "aliasing", Key: key, Want: "the host's argument slice is unchanged by the call: " + strings.Join(wantArgs, " "), Got: argsAfter})
					case show(r1.Rets) != first:
						r.Fail(&report.Case{Kind: "aliasing", Key: key, Want: "the results of the first call stay " + first + " after a second call", Got: show(r1.Rets)})
					case n > 0 && show(r2.Rets) == first:
						r.Fail(&report.Case{Kind: "aliasing", Key: key, Want: "the second call sees its own arguments", Got: show(r2.Rets)})
					}
					m.Close()
				}
			}
		}
	}
}

func c19rerun(c *report.Case) (bool, string) {
	if c.Kind == "newfunc" {
		var cfg c19cfg
		if !remarshal(c.Input, &cfg) {
			return false, "bad input"
		}
		got, want := c19exec(cfg)
		return got != want, got
	}
	// the remaining kinds are cheap deterministic families: re-run them and look for the same key
	rr := report.New("C19", "quick")
	switch c.Kind {
	case "roundtrip":
		c19roundTrips(rr)
	case "call":
		c19callChecks(rr)
	case "error":
		c19errorChecks(rr)
	case "reentry":
		c19reentry(rr)
	case "redefine":
		c19redefine(rr)
	case "aliasing":
		c19aliasing(rr)
	case "rebind":
		c19rebind(rr)
	}
	return rr.Violations() > 0, fmt.Sprintf("%d failing cases in the %s family", rr.Violations(), c.Kind)
}

func init() { register("C19", c19run, c19rerun) }
