package props

import "encoding/json"

// remarshal converts a decoded JSON value (map[string]any ...) into a typed struct.
func remarshal(in any, out any) bool {
	b, err := json.Marshal(in)
	if err != nil {
		return false
	}
	return json.Unmarshal(b, out) == nil
}

// C03Child is replaced by the real implementation in c03.go once it exists.
var C03Child = func(args []string) {}
