package props

import "encoding/json"

// remarshal converts a decoded JSON value (map[string]any ...) into a typed struct.
func remarshal(in any, out any) bool {
	b, err := json.Marshal(in)
	if err != nil {
		return false
	}
	return json.Unmarshal(b, out) == nil
}

// C03Child is set by c03.go (child-process entry point).
var C03Child = func(args []string) {}
