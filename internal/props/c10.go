package props

import (
	"fmt"
	"sort"
	"strings"

	"github.com/philhassey/goatlang"

	"verif/internal/goat"
	"verif/internal/par"
	"verif/internal/report"
)

// C10 — script maps behave like Go maps under any history of operations.
//
// (a) BFS to fixpoint over histories of Set/Delete on the real map objects
//     (3 keys x 2 values, 4 key kinds + two any-valued kinds + four int keys starting at 0 (three deletions out of four trigger the key-list compaction while key 0 is live), every ordered initial content), states
//     merged on (reflective dump of the implementation object, reference map);
//     Get / comma-ok / Len / RangeAll compared with a Go map in every state.
// (b) unmerged DFS over all histories to depth 5/6 (guards the merge).
// (c) range under mutation from EVERY state of (a): all interleavings of up to
//     3/4 mutations between iterator steps; oracle = Go's range rules.
// (d) the same histories as script text through Eval (depth 4/5).

type c10kind struct {
	name   string
	kt     goatlang.Type
	keys   []goatlang.Value
	lits   []string // script literals
	gotype string
	anyVal bool // element type any: the model value 1 is stored as nil (a stored nil is still a present key)
}

func (kd c10kind) vt() goatlang.Type {
	if kd.anyVal {
		return goatlang.TypeNil
	}
	return goatlang.TypeInt32
}

func (kd c10kind) enc(v int) goatlang.Value {
	if kd.anyVal && v == 1 {
		return goatlang.Nil()
	}
	return goatlang.Int(v)
}

func (kd c10kind) dec(v goatlang.Value) int {
	if kd.anyVal && v.Type() == goatlang.TypeNil {
		return 1
	}
	return int(v.Float64())
}

// zero: the model value a missing key reads as
func (kd c10kind) zero() int {
	if kd.anyVal {
		return 1
	}
	return 0
}

var c10kinds = []c10kind{
	{"string", goatlang.TypeString, []goatlang.Value{goatlang.String("a"), goatlang.String("b"), goatlang.String("c")}, []string{`"a"`, `"b"`, `"c"`}, "string", false},
	{"int", goatlang.TypeInt32, []goatlang.Value{goatlang.Int(1), goatlang.Int(2), goatlang.Int(3)}, []string{"1", "2", "3"}, "int", false},
	{"float64", goatlang.TypeFloat64, []goatlang.Value{goatlang.Float64(0.5), goatlang.Float64(1), goatlang.Float64(1.5)}, []string{"0.5", "1.0", "1.5"}, "float64", false},
	{"bool", goatlang.TypeBool, []goatlang.Value{goatlang.Bool(true), goatlang.Bool(false)}, []string{"true", "false"}, "bool", false},
	{"string->any", goatlang.TypeString, []goatlang.Value{goatlang.String("a"), goatlang.String("b"), goatlang.String("c")}, []string{`"a"`, `"b"`, `"c"`}, "string", true},
	{"int->any", goatlang.TypeInt32, []goatlang.Value{goatlang.Int(1), goatlang.Int(2), goatlang.Int(3)}, []string{"1", "2", "3"}, "int", true},
	// keys from zero: the zero value of the key type is a key like any other (a key list must not confuse "deleted" with 0)
	{"int from 0", goatlang.TypeInt32, []goatlang.Value{goatlang.Int(0), goatlang.Int(1), goatlang.Int(2), goatlang.Int(3)}, []string{"0", "1", "2", "3"}, "int", false},
}

// an operation of the history alphabet
type c10op struct {
	Del bool `json:"del,omitempty"`
	K   int  `json:"k"`
	V   int  `json:"v,omitempty"`
}

func (o c10op) String() string {
	if o.Del {
		return fmt.Sprintf("delete(k%d)", o.K)
	}
	return fmt.Sprintf("m[k%d]=%d", o.K, o.V)
}

type c10hist struct {
	Kind int     `json:"kind"`
	Init []int   `json:"init"` // ordered initial keys (value = 7)
	Ops  []c10op `json:"ops"`
}

func (h c10hist) String() string {
	var p []string
	for _, o := range h.Ops {
		p = append(p, o.String())
	}
	return fmt.Sprintf("%s map, init %v: %s", c10kinds[h.Kind].name, h.Init, strings.Join(p, "; "))
}

// reference model: a Go map plus entry generations (for the range rules)
type c10ref struct {
	val map[int]int
	gen map[int]int
	n   int
}

func newC10ref() *c10ref { return &c10ref{val: map[int]int{}, gen: map[int]int{}} }
func (r *c10ref) set(k, v int) {
	if _, ok := r.val[k]; !ok {
		r.n++
		r.gen[k] = r.n
	}
	r.val[k] = v
}
func (r *c10ref) del(k int) { delete(r.val, k); delete(r.gen, k) }
func (r *c10ref) String() string {
	var p []string
	for k, v := range r.val {
		p = append(p, fmt.Sprintf("%d:%d", k, v))
	}
	sort.Strings(p)
	return strings.Join(p, ",")
}

// build replays a history on a fresh real map and the reference.
func c10build(h c10hist) (goatlang.Value, *c10ref) {
	kd := c10kinds[h.Kind]
	var in []goatlang.Value
	ref := newC10ref()
	for _, k := range h.Init {
		in = append(in, kd.keys[k], kd.enc(7))
		ref.set(k, 7)
	}
	m := goatlang.NewMap(kd.kt, kd.vt(), in)
	for _, o := range h.Ops {
		if o.Del {
			m.Delete(kd.keys[o.K])
			ref.del(o.K)
		} else {
			m.Set(kd.keys[o.K], kd.enc(o.V))
			ref.set(o.K, o.V)
		}
	}
	return m, ref
}

func c10keyIndex(kd c10kind, v goatlang.Value) int {
	for i, k := range kd.keys {
		if kd.kt == goatlang.TypeString {
			if v.String() == k.String() {
				return i
			}
		} else if v.Float64() == k.Float64() {
			return i
		}
	}
	return -1
}

// c10observe compares every read operation with the reference; returns "" or the discrepancy, plus the observation vector.
func c10observe(kd c10kind, m goatlang.Value, ref *c10ref) (problem string, obs string) {
	var o []string
	for i, k := range kd.keys {
		v, ok := m.Get(k)
		want, wok := ref.val[i]
		if !wok {
			want = kd.zero()
		}
		o = append(o, fmt.Sprintf("get%d=%v,%v", i, kd.dec(v), ok))
		if ok != wok || kd.dec(v) != want {
			problem = fmt.Sprintf("Get(k%d) = (%v,%v), Go map gives (%v,%v)", i, kd.dec(v), ok, want, wok)
		}
		if !wok && v.Type() != kd.vt() {
			problem = fmt.Sprintf("Get(k%d) of a missing key is not the typed zero value", i)
		}
	}
	if m.Len() != len(ref.val) {
		problem = fmt.Sprintf("Len() = %d, Go map has %d", m.Len(), len(ref.val))
	}
	o = append(o, fmt.Sprintf("len=%d", m.Len()))
	seen := map[int]int{}
	next := m.Range()
	var rs []string
	for n := 0; n < 100; n++ {
		k, v, ok := next()
		if !ok {
			break
		}
		i := c10keyIndex(kd, k)
		seen[i]++
		rs = append(rs, fmt.Sprintf("%d:%v", i, kd.dec(v)))
		if want, live := ref.val[i]; !live {
			problem = fmt.Sprintf("range yields k%d which is not in the map", i)
		} else if kd.dec(v) != want {
			problem = fmt.Sprintf("range yields k%d with value %v, current value is %d", i, kd.dec(v), want)
		}
	}
	for i := range ref.val {
		if seen[i] != 1 {
			problem = fmt.Sprintf("range yields live key k%d %d times", i, seen[i])
		}
	}
	sort.Strings(rs)
	o = append(o, "range="+strings.Join(rs, ","))
	// the rendering shows exactly the live entries (entry order is Go's unspecified map order: compared as a set)
	if !kd.anyVal {
		var ws []string
		for i, v := range ref.val {
			ws = append(ws, strings.Trim(kd.lits[i], `"`)+":"+fmt.Sprint(v))
		}
		if kd.name == "float64" {
			ws = ws[:0]
			for i, v := range ref.val {
				ws = append(ws, fmt.Sprint([]float64{0.5, 1, 1.5}[i])+":"+fmt.Sprint(v))
			}
		}
		sort.Strings(ws)
		str := m.String()
		gs := strings.Fields(strings.TrimSuffix(strings.TrimPrefix(str, "map["), "]"))
		sort.Strings(gs)
		if !strings.HasPrefix(str, "map[") || strings.Join(gs, " ") != strings.Join(ws, " ") {
			problem = fmt.Sprintf("String() = %s, the live entries are [%s]", str, strings.Join(ws, " "))
		}
	}
	return problem, strings.Join(o, " ")
}

// range under mutation ----------------------------------------------------------

// an interleaving: a sequence of steps, each either "next" (-1) or a mutation index
type c10mut struct {
	Del bool `json:"del,omitempty"`
	K   int  `json:"k"`
}

type c10iter struct {
	Hist  c10hist `json:"history"`
	Steps []int   `json:"steps"` // -1 = next(); otherwise index into the mutation alphabet
}

func c10muts(kd c10kind) []c10mut {
	var ms []c10mut
	for k := range kd.keys {
		ms = append(ms, c10mut{false, k}, c10mut{true, k})
	}
	return ms
}

// c10runIter executes an interleaving on a fresh real map; returns "" or the violated rule, and whether the iterator ended.
func c10runIter(it c10iter, extend bool) (problem string, ended bool, trace string) {
	kd := c10kinds[it.Hist.Kind]
	m, ref := c10build(it.Hist)
	muts := c10muts(kd)
	whole := map[int]int{} // generation of the keys live at loop start
	for k, g := range ref.gen {
		whole[k] = g
	}
	visited := map[int]bool{} // generations visited
	next := m.Range()
	var tr []string
	do := func(s int) {
		if s >= 0 {
			mu := muts[s]
			if mu.Del {
				m.Delete(kd.keys[mu.K])
				ref.del(mu.K)
				delete(whole, mu.K)
				tr = append(tr, fmt.Sprintf("delete(k%d)", mu.K))
			} else {
				m.Set(kd.keys[mu.K], kd.enc(9))
				ref.set(mu.K, 9)
				if g, ok := whole[mu.K]; ok && g != ref.gen[mu.K] {
					delete(whole, mu.K)
				}
				tr = append(tr, fmt.Sprintf("m[k%d]=9", mu.K))
			}
			return
		}
		k, v, ok := next()
		if !ok {
			ended = true
			tr = append(tr, "next()=end")
			return
		}
		i := c10keyIndex(kd, k)
		tr = append(tr, fmt.Sprintf("next()=k%d:%v", i, kd.dec(v)))
		g, live := ref.gen[i]
		switch {
		case !live:
			problem = fmt.Sprintf("range produced k%d while it is not in the map", i)
		case visited[g]:
			problem = fmt.Sprintf("range produced the same entry k%d twice", i)
		case kd.dec(v) != ref.val[i]:
			problem = fmt.Sprintf("range produced k%d with value %v, current value %d", i, kd.dec(v), ref.val[i])
		}
		visited[g] = true
	}
	for _, s := range it.Steps {
		do(s)
		if problem != "" || ended {
			break
		}
	}
	if extend && problem == "" {
		for n := 0; n < 50 && !ended && problem == ""; n++ {
			do(-1)
		}
		if !ended && problem == "" {
			problem = "iterator did not end after 50 further steps"
		}
	}
	if ended && problem == "" {
		for k, g := range whole {
			if !visited[g] {
				problem = fmt.Sprintf("k%d was in the map for the whole loop but was never produced", k)
			}
		}
	}
	return problem, ended, strings.Join(tr, " ")
}

// script rendering ----------------------------------------------------------------

func c10script(h c10hist) (string, string) {
	kd := c10kinds[h.Kind]
	var b, want strings.Builder
	ref := newC10ref()
	b.WriteString("import \"fmt\"\n")
	var init []string
	for _, k := range h.Init {
		init = append(init, kd.lits[k]+": 7")
		ref.set(k, 7)
	}
	fmt.Fprintf(&b, "m := map[%s]int{%s}\n", kd.gotype, strings.Join(init, ", "))
	dump := func() {
		for i, l := range kd.lits {
			fmt.Fprintf(&b, "v%d, ok%d := m[%s]\nfmt.Println(\"get\", %d, v%d, ok%d, m[%s])\n", i, i, l, i, i, i, l)
			v, ok := ref.val[i]
			fmt.Fprintf(&want, "get %d %d %v %d\n", i, v, ok, v)
		}
		b.WriteString("fmt.Println(\"len\", len(m))\n")
		fmt.Fprintf(&want, "len %d\n", len(ref.val))
		b.WriteString("sum := 0\ncnt := 0\nfor k, v := range m {\n\tcnt++\n\tsum += v * 10\n\tif m[k] != v {\n\t\tsum += 1000\n\t}\n}\nfmt.Println(\"range\", cnt, sum)\n")
		s := 0
		for _, v := range ref.val {
			s += v * 10
		}
		fmt.Fprintf(&want, "range %d %d\n", len(ref.val), s)
		b.WriteString("keys := 0\nfor k := range m {\n\tif _, ok := m[k]; ok {\n\t\tkeys++\n\t}\n}\nfmt.Println(\"keys\", keys)\n")
		fmt.Fprintf(&want, "keys %d\n", len(ref.val))
		// a range nested in a range over the same map, written over several lines and on one line (each loop has its
		// own iterator whatever the layout), and two loops in sequence on one line
		b.WriteString("pairs := 0\nfor k1, v1 := range m {\n\tfor k2, v2 := range m {\n\t\tif m[k1] == v1 && m[k2] == v2 {\n\t\t\tpairs++\n\t\t}\n\t}\n}\n")
		b.WriteString("flat := 0\nfor k1, v1 := range m { for k2, v2 := range m { if m[k1] == v1 && m[k2] == v2 { flat++ } } }\n")
		b.WriteString("seq := 0\nfor k1 := range m { _ = k1; seq++ }; for _, v2 := range m { _ = v2; seq += 10 }\n")
		b.WriteString("fmt.Println(\"pairs\", pairs, flat, seq)\n")
		fmt.Fprintf(&want, "pairs %d %d %d\n", len(ref.val)*len(ref.val), len(ref.val)*len(ref.val), 11*len(ref.val))
	}
	for _, o := range h.Ops {
		if o.Del {
			fmt.Fprintf(&b, "delete(m, %s)\n", kd.lits[o.K])
			ref.del(o.K)
		} else {
			fmt.Fprintf(&b, "m[%s] = %d\n", kd.lits[o.K], o.V)
			ref.set(o.K, o.V)
		}
	}
	dump()
	return b.String(), want.String()
}

func c10runScript(src string) string {
	m := goat.New()
	defer m.Close()
	r := m.Eval(nil, src)
	if r.Failed() {
		return "FAILED " + r.String()
	}
	return r.Out
}

// permutations of subsets, in order
func c10inits(n int) [][]int {
	out := [][]int{{}}
	var rec func(cur []int, used int)
	rec = func(cur []int, used int) {
		for k := 0; k < n; k++ {
			if used>>k&1 == 0 {
				nx := append(append([]int{}, cur...), k)
				out = append(out, nx)
				rec(nx, used|1<<k)
			}
		}
	}
	rec(nil, 0)
	// initial contents that name a key twice (valid for non-constant keys in a Go map literal: the later entry wins)
	out = append(out, []int{0, 0}, []int{0, 1, 0})
	if n > 2 {
		out = append(out, []int{2, 1, 2, 0})
	}
	return out
}

func c10alphabet(kd c10kind) []c10op {
	var ops []c10op
	for k := range kd.keys {
		ops = append(ops, c10op{false, k, 1}, c10op{false, k, 2}, c10op{true, k, 0})
	}
	return ops
}

func c10run(r *report.Run) {
	thorough := r.Tier == "thorough"
	dfsDepth, maxMut, scriptDepth := 5, 3, 3
	if thorough {
		dfsDepth, maxMut, scriptDepth = 6, 4, 4
	}
	r.Rule("histories of Set/Delete over 3 keys x 2 values on real maps of 4 key kinds from every ordered initial content: BFS to fixpoint with states merged on (reflective implementation dump, reference map), an unmerged DFS to a depth bound, every interleaving of up to N mutations between iterator steps from every reachable state, and script renderings; non-trivial = history that contains a delete followed later by a re-insert of the same key, or an interleaving with at least one mutation")
	r.Assume("Go map semantics are the reference (a Go map in the harness + the specification's range rules)", "key order produced by compaction is pinned by the verifCanonKeys seam (sorted); other orders are renamings of explored cases because the map code never inspects key values", "NaN keys excluded as in the property")
	states, transitions, dfsN, iterN, scripts := 0, 0, 0, 0, 0
	for ki, kd := range c10kinds {
		if r.Violations() > 200 {
			r.NotExhaustive("stopped early: more than 200 violations")
			break
		}
		alphabet := c10alphabet(kd)
		// (a) BFS to fixpoint
		type st struct{ h c10hist }
		seen := map[string]bool{}
		var frontier, all []c10hist
		for _, in := range c10inits(len(kd.keys)) {
			h := c10hist{Kind: ki, Init: in}
			m, ref := c10build(h)
			key := goatlang.VerifDump(m) + "|" + ref.String()
			if !seen[key] {
				seen[key] = true
				frontier = append(frontier, h)
				all = append(all, h)
			}
		}
		obsSet := map[string]bool{}
		for len(frontier) > 0 {
			if r.Violations() > 200 {
				r.NotExhaustive("stopped early: more than 200 violations")
				break
			}
			if len(all) > 200000 {
				r.NotExhaustive("state cap of 200000 reached in BFS (state space did not close)")
				break
			}
			var nextF []c10hist
			for _, h := range frontier {
				m, ref := c10build(h)
				if p, obs := c10observe(kd, m, ref); p != "" {
					r.Fail(&report.Case{Kind: "history", Key: h.String(), Input: h, Want: "answers of a Go map", Got: p + "  [" + obs + "]"})
				} else {
					obsSet[obs] = true
				}
				for _, op := range alphabet {
					nh := c10hist{Kind: ki, Init: h.Init, Ops: append(append([]c10op{}, h.Ops...), op)}
					nm, nref := c10build(nh)
					transitions++
					key := goatlang.VerifDump(nm) + "|" + nref.String()
					if !seen[key] {
						seen[key] = true
						nextF = append(nextF, nh)
						all = append(all, nh)
					}
				}
			}
			frontier = nextF
		}
		states += len(all)
		r.Eval(len(all))
		for _, h := range all {
			if c10reinsert(h) {
				r.Nontrivial(h.String())
			}
		}
		for o := range obsSet {
			r.Outcome(o)
		}
		if len(all) > 3 {
			h := all[len(all)*2/3]
			m, ref := c10build(h)
			_, obs := c10observe(kd, m, ref)
			r.Sample(map[string]any{"history": h.String(), "implementation_state": goatlang.VerifDump(m), "observations": obs})
		}
		// the four-key kind is there for the key-list compaction (three of four keys deleted): its merged search and a
		// shallow unmerged one are explored, interleavings with one mutation only, no scripts
		lite := len(kd.keys) > 3
		kDfs, kMut := dfsDepth, maxMut
		if lite {
			kDfs, kMut = 3, 1
		}
		// (b) unmerged DFS
		dfsObs := map[string]bool{}
		var dfs func(h c10hist)
		dfs = func(h c10hist) {
			m, ref := c10build(h)
			dfsN++
			p, obs := c10observe(kd, m, ref)
			if p != "" {
				r.Fail(&report.Case{Kind: "history", Key: h.String(), Input: h, Want: "answers of a Go map", Got: p + "  [" + obs + "]"})
			}
			dfsObs[obs] = true
			if len(h.Ops) == kDfs {
				return
			}
			for _, op := range alphabet {
				dfs(c10hist{Kind: ki, Init: h.Init, Ops: append(append([]c10op{}, h.Ops...), op)})
			}
		}
		for _, in := range [][]int{{}, {0, 1}, []int{1, 0, 2, 3}[:len(kd.keys)]} {
			dfs(c10hist{Kind: ki, Init: in})
		}
		// every observation vector of the unmerged search must have been seen by the merged one
		for o := range dfsObs {
			if !obsSet[o] && r.Violations() == 0 {
				r.HarnessError("state merging lost an observation: %s (%s maps)", o, kd.name)
			}
		}
		// (c) range under mutation from every reachable state
		muts := c10muts(kd)
		var jobs []c10hist
		jobs = append(jobs, all...)
		par.DoChunk(len(jobs), 8, func(j int) {
			if r.Expired() || r.Violations() > 200 {
				return
			}
			h := jobs[j]
			var rec func(steps []int, used int)
			n := 0
			rec = func(steps []int, used int) {
				it := c10iter{Hist: h, Steps: steps}
				p, ended, tr := c10runIter(it, false)
				if p != "" {
					r.Fail(&report.Case{Kind: "range-under-mutation", Key: h.String() + " || " + tr, Input: it, Want: "Go's range rules", Got: p})
					return
				}
				if ended {
					n++
					if used > 0 {
						r.Nontrivial(h.String() + "|" + tr)
					}
					r.Outcome(tr)
					return
				}
				if len(steps) > 40 {
					r.Fail(&report.Case{Kind: "range-under-mutation", Key: h.String() + " || " + tr, Input: it, Want: "iteration ends", Got: "iterator still going after 40 steps"})
					return
				}
				rec(append(append([]int{}, steps...), -1), used)
				if used < kMut {
					for mi := range muts {
						rec(append(append([]int{}, steps...), mi), used+1)
					}
				}
			}
			rec(nil, 0)
			r.Eval(n)
			r.Add("range_interleavings", n)
			if j%997 == 3 {
				it := c10iter{Hist: h, Steps: []int{-1, 1, -1, 0, -1, -1, -1}}
				_, _, tr := c10runIter(it, true)
				r.Sample(map[string]any{"history": h.String(), "interleaving": tr})
			}
		})
		// (d) script renderings (int-valued kinds; the any-valued kinds print nil differently from Go and are covered by (a)-(c))
		if kd.anyVal || lite {
			continue
		}
		var shist []c10hist
		var srec func(h c10hist)
		srec = func(h c10hist) {
			shist = append(shist, h)
			if len(h.Ops) == scriptDepth {
				return
			}
			for _, op := range alphabet {
				if op.V == 2 && !thorough {
					continue
				}
				srec(c10hist{Kind: ki, Init: h.Init, Ops: append(append([]c10op{}, h.Ops...), op)})
			}
		}
		for _, in := range [][]int{{}, {0, 1}, []int{1, 0, 2, 3}[:len(kd.keys)]} {
			srec(c10hist{Kind: ki, Init: in})
		}
		par.DoChunk(len(shist), 16, func(j int) {
			src, want := c10script(shist[j])
			got := c10runScript(src)
			r.Eval(1)
			if got != want {
				r.Fail(&report.Case{Kind: "script", Key: src, Input: shist[j], Want: want, Got: got})
			}
		})
		scripts += len(shist)
		_ = iterN
	}
	// nil map and zero values of several element types, through scripts
	for _, zc := range c10zeroCases() {
		got := c10runScript(zc[0])
		r.Eval(1)
		scripts++
		if got != zc[1] {
			r.Fail(&report.Case{Kind: "zero", Key: zc[0], Want: zc[1], Got: got})
		}
	}
	r.Set("states", states)
	r.Set("transitions", transitions)
	r.Set("unmerged_dfs_histories", dfsN)
	r.Set("script_histories", scripts)
	r.Set("traces_validated_against_impl", dfsN)
	if r.Expired() {
		r.NotExhaustive("internal deadline reached")
	}
}

func c10reinsert(h c10hist) bool {
	deleted := map[int]bool{}
	for _, o := range h.Ops {
		if o.Del {
			deleted[o.K] = true
		} else if deleted[o.K] {
			return true
		}
	}
	return false
}

func c10zeroCases() [][2]string {
	var out [][2]string
	type el struct{ typ, zero string }
	els := []el{{"int", "v == 0"}, {"string", `v == ""`}, {"float64", "v == 0.0"}, {"bool", "v == false"}, {"[]int", "v == nil, len(v)"}, {"*T", "v == nil"}, {"uint8", "v == 0"}}
	for _, kd := range c10kinds {
		for _, e := range els {
			for _, form := range []string{"m := map[%s]%s{}", "var m map[%s]%s", "m := make(map[%s]%s)"} {
				src := "import \"fmt\"\ntype T struct { n int }\n" + fmt.Sprintf(form, kd.gotype, e.typ) + "\n"
				src += fmt.Sprintf("v, ok := m[%s]\nfmt.Println(ok, %s, len(m))\nfor k, x := range m {\n\tfmt.Println(\"unexpected\", k, x)\n}\ndelete(m, %s)\nfmt.Println(len(m))\n", kd.lits[0], e.zero, kd.lits[0])
				want := "false true 0\n0\n"
				if e.typ == "[]int" {
					want = "false true 0 0\n0\n"
				}
				out = append(out, [2]string{src, want})
			}
		}
	}
	// the same reads on maps held in locals and parameters of a function (FASTGET / FASTGETINT windows)
	for _, kd := range c10kinds[:4] {
		for _, e := range els {
			src := "import \"fmt\"\ntype T struct { n int }\n" +
				fmt.Sprintf("func get(m map[%s]%s) bool {\n\tv := m[%s]\n\tw, ok := m[%s]\n\tn := 0\n\tfor range m {\n\t\tn++\n\t}\n\tdelete(m, %s)\n\t_ = w\n\treturn !ok && n == 0 && len(m) == 0 && %s\n}\n", kd.gotype, e.typ, kd.lits[0], kd.lits[0], kd.lits[0], strings.Split(e.zero, ",")[0]) +
				fmt.Sprintf("func local() bool {\n\tvar m map[%s]%s\n\tv := m[%s]\n\treturn m == nil && %s && get(m)\n}\n", kd.gotype, e.typ, kd.lits[0], strings.Split(e.zero, ",")[0]) +
				fmt.Sprintf("fmt.Println(get(nil), local(), get(map[%s]%s{}))\n", kd.gotype, e.typ)
			out = append(out, [2]string{src, "true true true\n"})
		}
	}
	// constant keys beyond int32 and float keys written as integer literals, on maps held in locals (fused constant-index windows)
	out = append(out, [2]string{"import \"fmt\"\nfunc f() {\n\tm := map[uint32]int{}\n\tm[4000000000] = 1\n\tvar k uint32 = 4000000000\n\tv, ok := m[k]\n\tm[k] += 1\n\tfmt.Println(len(m), v, ok, m[4000000000], m[k])\n\tfm := map[float64]int{}\n\tfm[3] = 1\n\tkf := 3.0\n\tfm[kf]++\n\tfmt.Println(len(fm), fm[3], fm[kf])\n\tim := map[int]int{}\n\tim[-1] = 5\n\tki := -1\n\tim[ki]++\n\tfmt.Println(len(im), im[-1], im[ki])\n}\nf()\n", "1 1 true 2 2\n1 2 2\n1 6 6\n"})
	out = append(out, [2]string{"import \"fmt\"\nfunc f() {\n\ts := \"a\"\n\tm := map[string]int{s: 1, \"b\": 2, s: 3}\n\tn, t := 0, 0\n\tfor _, v := range m {\n\t\tn++\n\t\tt += v\n\t}\n\tfmt.Println(len(m), n, t, m[s])\n}\nf()\n", "2 2 5 3\n"})
	// a stored nil is a present key: delete removes it
	for _, kt := range []string{"string", "int"} {
		k := map[string]string{"string": `"a"`, "int": "1"}[kt]
		src := "import \"fmt\"\n" + fmt.Sprintf("m := map[%s]any{}\nm[%s] = nil\n_, ok := m[%s]\nfmt.Println(len(m), ok)\ndelete(m, %s)\n_, ok2 := m[%s]\nn := 0\nfor range m {\n\tn++\n}\nfmt.Println(len(m), ok2, n)\n", kt, k, k, k, k)
		out = append(out, [2]string{src, "1 true\n0 false 0\n"})
	}
	return out
}

func c10rerun(c *report.Case) (bool, string) {
	switch c.Kind {
	case "history":
		var h c10hist
		if !remarshal(c.Input, &h) {
			return false, "bad input"
		}
		m, ref := c10build(h)
		p, obs := c10observe(c10kinds[h.Kind], m, ref)
		return p != "", p + " [" + obs + "]"
	case "range-under-mutation":
		var it c10iter
		if !remarshal(c.Input, &it) {
			return false, "bad input"
		}
		p, _, tr := c10runIter(it, false)
		return p != "", p + " [" + tr + "]"
	case "script", "zero":
		got := c10runScript(c.Key)
		return got != c.Want, got
	}
	return false, "unknown kind"
}

func init() { register("C10", c10run, c10rerun) }
