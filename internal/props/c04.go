package props

import (
	"fmt"
	"math"
	"strconv"
	"strings"

	"github.com/philhassey/goatlang"

	"verif/internal/goat"
	"verif/internal/oracle"
	"verif/internal/par"
	"verif/internal/report"
)

// C04 — fixed-width numeric semantics equal Go's for every operand value.
//
// Space: operator x type x syntactic position (forms), each form a tiny script
// function called through VM.Func with EVERY operand pair for the 8-bit types
// and the full boundary square for 32-bit / float64.  Oracle: the same
// operator applied by the harness's own compiled Go (O-native), value and
// dynamic type; "Go panics" <-> "goatlang returns an error".  Every form is
// additionally compiled and spot-run by the Go toolchain (validity of the form
// and agreement of O-native with the toolchain on the spot values).

type c4T int

const (
	c4i8 c4T = iota
	c4u8
	c4i32
	c4u32
	c4f64
	c4bool
)

var c4name = map[c4T]string{c4i8: "int8", c4u8: "uint8", c4i32: "int32", c4u32: "uint32", c4f64: "float64", c4bool: "bool"}

func (t c4T) isInt() bool { return t <= c4u32 }

func c4minmax(t c4T) (int64, int64) {
	switch t {
	case c4i8:
		return -128, 127
	case c4u8:
		return 0, 255
	case c4i32:
		return math.MinInt32, math.MaxInt32
	case c4u32:
		return 0, math.MaxUint32
	}
	return 0, 0
}

func c4wrap(t c4T, v int64) float64 {
	switch t {
	case c4i8:
		return float64(int8(v))
	case c4u8:
		return float64(uint8(v))
	case c4i32:
		return float64(int32(v))
	case c4u32:
		return float64(uint32(v))
	}
	return float64(v)
}

func c4value(t c4T, f float64) goatlang.Value {
	switch t {
	case c4i8:
		return goatlang.Int8(int8(f))
	case c4u8:
		return goatlang.Uint8(uint8(f))
	case c4i32:
		return goatlang.Int32(int32(f))
	case c4u32:
		return goatlang.Uint32(uint32(f))
	case c4bool:
		return goatlang.Bool(f != 0)
	}
	return goatlang.Float64(f)
}

// c4res is an oracle answer.
type c4res struct {
	v      float64
	t      c4T
	panics bool
}

type c4integer interface {
	~int8 | ~uint8 | ~int32 | ~uint32
}

func c4b(b bool) float64 {
	if b {
		return 1
	}
	return 0
}

// c4intBin applies op with Go's own semantics for T (this IS the oracle).
func c4intBin[T c4integer](op string, a, b T, t c4T) (res c4res) {
	defer func() {
		if r := recover(); r != nil {
			res = c4res{panics: true}
		}
	}()
	var x T
	switch op {
	case "+":
		x = a + b
	case "-":
		x = a - b
	case "*":
		x = a * b
	case "/":
		x = a / b
	case "%":
		x = a % b
	case "&":
		x = a & b
	case "|":
		x = a | b
	case "^":
		x = a ^ b
	case "&^":
		x = a &^ b
	case "<<":
		x = a << b
	case ">>":
		x = a >> b
	case "==":
		return c4res{v: c4b(a == b), t: c4bool}
	case "!=":
		return c4res{v: c4b(a != b), t: c4bool}
	case "<":
		return c4res{v: c4b(a < b), t: c4bool}
	case "<=":
		return c4res{v: c4b(a <= b), t: c4bool}
	case ">":
		return c4res{v: c4b(a > b), t: c4bool}
	case ">=":
		return c4res{v: c4b(a >= b), t: c4bool}
	default:
		panic("c4intBin: " + op)
	}
	return c4res{v: float64(x), t: t}
}

func c4shift[T, U c4integer](op string, a T, n U, t c4T) (res c4res) {
	defer func() {
		if r := recover(); r != nil {
			res = c4res{panics: true}
		}
	}()
	if op == "<<" {
		return c4res{v: float64(a << n), t: t}
	}
	return c4res{v: float64(a >> n), t: t}
}

func c4floatBin(op string, a, b float64) c4res {
	switch op {
	case "+":
		return c4res{v: a + b, t: c4f64}
	case "-":
		return c4res{v: a - b, t: c4f64}
	case "*":
		return c4res{v: a * b, t: c4f64}
	case "/":
		return c4res{v: a / b, t: c4f64}
	case "==":
		return c4res{v: c4b(a == b), t: c4bool}
	case "!=":
		return c4res{v: c4b(a != b), t: c4bool}
	case "<":
		return c4res{v: c4b(a < b), t: c4bool}
	case "<=":
		return c4res{v: c4b(a <= b), t: c4bool}
	case ">":
		return c4res{v: c4b(a > b), t: c4bool}
	case ">=":
		return c4res{v: c4b(a >= b), t: c4bool}
	}
	panic("c4floatBin: " + op)
}

func c4bin(op string, t c4T, a, b float64) c4res {
	switch t {
	case c4i8:
		return c4intBin(op, int8(a), int8(b), t)
	case c4u8:
		return c4intBin(op, uint8(a), uint8(b), t)
	case c4i32:
		return c4intBin(op, int32(a), int32(b), t)
	case c4u32:
		return c4intBin(op, uint32(a), uint32(b), t)
	}
	return c4floatBin(op, a, b)
}

func c4shiftMixed(op string, t, u c4T, a, n float64) c4res {
	switch t {
	case c4i8:
		return c4shiftU(op, int8(a), u, n, t)
	case c4u8:
		return c4shiftU(op, uint8(a), u, n, t)
	case c4i32:
		return c4shiftU(op, int32(a), u, n, t)
	}
	return c4shiftU(op, uint32(a), u, n, t)
}

func c4shiftU[T c4integer](op string, a T, u c4T, n float64, t c4T) c4res {
	switch u {
	case c4i8:
		return c4shift(op, a, int8(n), t)
	case c4u8:
		return c4shift(op, a, uint8(n), t)
	case c4i32:
		return c4shift(op, a, int32(n), t)
	}
	return c4shift(op, a, uint32(n), t)
}

func c4unary(op string, t c4T, a float64) c4res {
	switch t {
	case c4i8:
		if op == "-" {
			return c4res{v: float64(-int8(a)), t: t}
		}
		return c4res{v: float64(^int8(a)), t: t}
	case c4u8:
		if op == "-" {
			return c4res{v: float64(-uint8(a)), t: t}
		}
		return c4res{v: float64(^uint8(a)), t: t}
	case c4i32:
		if op == "-" {
			return c4res{v: float64(-int32(a)), t: t}
		}
		return c4res{v: float64(^int32(a)), t: t}
	case c4u32:
		if op == "-" {
			return c4res{v: float64(-uint32(a)), t: t}
		}
		return c4res{v: float64(^uint32(a)), t: t}
	}
	return c4res{v: -a, t: t}
}

func c4conv(from, to c4T, a float64) c4res {
	if to == c4f64 {
		return c4res{v: a, t: to}
	}
	// integer -> integer and (representable) float -> integer: via int64, then Go's truncating conversion
	return c4res{v: c4wrap(to, int64(a)), t: to}
}

// value sets -------------------------------------------------------------------

func c4values(t c4T) []float64 {
	var out []float64
	switch t {
	case c4i8:
		for v := -128; v <= 127; v++ {
			out = append(out, float64(v))
		}
	case c4u8:
		for v := 0; v <= 255; v++ {
			out = append(out, float64(v))
		}
	case c4i32, c4u32:
		lo, hi := c4minmax(t)
		seen := map[int64]bool{}
		add := func(v int64) {
			if v >= lo && v <= hi && !seen[v] {
				seen[v] = true
				out = append(out, float64(v))
			}
		}
		for _, v := range []int64{0, 1, -1, 2, -2, 3, 7, 10, 31, 32, 33, 100, -100, 1000, 65535, 65536, 65537, 46340, 46341} {
			add(v)
		}
		for _, k := range []uint{7, 8, 15, 16, 30, 31, 32} {
			for d := int64(-1); d <= 1; d++ {
				add(int64(1)<<k + d)
				add(-(int64(1) << k) + d)
			}
		}
		add(lo)
		add(hi)
		add(lo + 1)
		add(hi - 1)
	case c4f64:
		out = []float64{0, math.Copysign(0, -1), 0.5, -0.5, 1, -1, 1.5, -1.5, 2, 3, 0.1, 0.2, 0.3, 1e-7, 1e21, 1 << 53, 1<<53 + 2, 1<<53 - 1, math.MaxFloat64, -math.MaxFloat64,
			math.SmallestNonzeroFloat64, math.Inf(1), math.Inf(-1), math.NaN(), 1e308, 255, 256, 2147483647, 2147483648, -2147483648, 4294967295}
	}
	return out
}

// constants that may be written in source for type t (representable in t)
func c4consts(t c4T, all bool) []string {
	var out []string
	switch t {
	case c4i8, c4u8:
		lo, hi := c4minmax(t)
		if all {
			for v := lo; v <= hi; v++ {
				out = append(out, fmt.Sprint(v))
			}
		} else {
			for _, v := range []int64{0, 1, 2, 3, 7, 8, 9, 100, 126, 127, 128, 200, 254, 255, -1, -2, -100, -127, -128} {
				if v >= lo && v <= hi {
					out = append(out, fmt.Sprint(v))
				}
			}
		}
	case c4i32, c4u32:
		lo, hi := c4minmax(t)
		for _, v := range []int64{0, 1, 2, 3, 7, 31, 32, 255, 256, 65535, 65536, 2147483647, 2147483648, 4294967295, -1, -2, -255, -2147483648, -2147483647} {
			if v >= lo && v <= hi {
				out = append(out, fmt.Sprint(v))
			}
		}
	case c4f64:
		out = []string{"0", "1", "2", "-1", "3", "0.5", "1.5", "-0.25", "0.1", "1e21", "1000000"}
	}
	return out
}

func c4parseConst(s string) float64 {
	var f float64
	fmt.Sscan(s, &f)
	return f
}

// forms ------------------------------------------------------------------------

type c4form struct {
	name  string
	decls string // supporting top-level declarations
	src   string // the function
	argT  []c4T
	key   string // human-readable description (also the known-finding key prefix)
	// oracle for arguments (as float64)
	eval func(a []float64) c4res
	// argument tuples to run; nil = product of c4values(argT...)
	skip func(a []float64) bool
}

var c4intOps = []string{"+", "-", "*", "/", "%", "&", "|", "^", "&^", "<<", ">>", "==", "!=", "<", "<=", ">", ">="}
var c4floatOps = []string{"+", "-", "*", "/", "==", "!=", "<", "<=", ">", ">="}
var c4intAssignOps = []string{"+", "-", "*", "/", "%", "&", "|", "^", "<<", ">>"}
var c4floatAssignOps = []string{"+", "-", "*", "/"}

func c4isCmp(op string) bool {
	switch op {
	case "==", "!=", "<", "<=", ">", ">=":
		return true
	}
	return false
}

type c4lv struct {
	name  string
	setup string // statements creating the lvalue L holding x   (uses %T for the type name, %S for the struct type)
	lv    string
}

var c4lvalues = []c4lv{
	{"local", "", "x"},
	{"global", "G%T = x\n", "G%T"},
	{"field", "s := &S%T{f: x}\n", "s.f"},
	{"slice element", "s := []%T{x}\n", "s[0]"},
	{"map element", "m := map[int]%T{1: x}\n", "m[1]"},
	{"field of struct in map", "m := map[string]*S%T{\"k\": &S%T{f: x}}\n", "m[\"k\"].f"},
	{"element of slice in struct", "s := &S%T{l: []%T{x}}\n", "s.l[0]"},
}

func c4typeDecls(t c4T) string {
	n := c4name[t]
	return fmt.Sprintf("type S%s struct {\n\tf %s\n\tl []%s\n}\n\nvar G%s %s\n\nfunc id%s(a %s) %s {\n\treturn a\n}\n\n", n, n, n, n, n, n, n, n)
}

func c4indent(s string) string {
	var b strings.Builder
	for _, l := range strings.Split(strings.TrimRight(s, "\n"), "\n") {
		b.WriteString("\t" + l + "\n")
	}
	return b.String()
}

func c4forms(t c4T, thorough bool) []*c4form {
	var fs []*c4form
	tn := c4name[t]
	add := func(key string, argT []c4T, ret, body string, eval func(a []float64) c4res, skip func(a []float64) bool) {
		name := fmt.Sprintf("F%d", len(fs))
		params := []string{}
		for i, at := range argT {
			params = append(params, fmt.Sprintf("%s %s", []string{"x", "y"}[i], c4name[at]))
		}
		src := fmt.Sprintf("func %s(%s) %s {\n%s}\n", name, strings.Join(params, ", "), ret, c4indent(body))
		fs = append(fs, &c4form{name: name, src: src, argT: argT, key: tn + ": " + key, eval: eval, skip: skip})
	}
	ops, aops := c4intOps, c4intAssignOps
	if t == c4f64 {
		ops, aops = c4floatOps, c4floatAssignOps
	}
	subst := func(s string) string { return strings.ReplaceAll(s, "%T", tn) }
	// A. variable op variable
	for _, op := range ops {
		op := op
		ret := tn
		if c4isCmp(op) {
			ret = "bool"
		}
		add("x "+op+" y", []c4T{t, t}, ret, "return x "+op+" y", func(a []float64) c4res { return c4bin(op, t, a[0], a[1]) }, nil)
		// through intermediate locals that are not parameters (different slots, LOCALADD etc. on declared locals)
		add("a := x; b := y; a "+op+" b", []c4T{t, t}, ret, "a := x\nb := y\nreturn a "+op+" b", func(a []float64) c4res { return c4bin(op, t, a[0], a[1]) }, nil)
	}
	// B. compound assignment on every lvalue kind
	for _, lv := range c4lvalues {
		for _, op := range aops {
			op, lv := op, lv
			body := subst(lv.setup) + subst(lv.lv) + " " + op + "= y\nreturn " + subst(lv.lv)
			add(lv.name+" "+op+"= y", []c4T{t, t}, tn, body, func(a []float64) c4res { return c4bin(op, t, a[0], a[1]) }, nil)
		}
		for _, op := range []string{"++", "--"} {
			op, lv := op, lv
			body := subst(lv.setup) + subst(lv.lv) + op + "\nreturn " + subst(lv.lv)
			add(lv.name+op, []c4T{t}, tn, body, func(a []float64) c4res { return c4bin(op[:1], t, a[0], 1) }, nil)
		}
		// x = x op y spelled out (what the optimizer fuses differently from op=)
		for _, op := range aops {
			op, lv := op, lv
			l := subst(lv.lv)
			body := subst(lv.setup) + l + " = " + l + " " + op + " y\nreturn " + l
			add(lv.name+" = "+lv.name+" "+op+" y", []c4T{t, t}, tn, body, func(a []float64) c4res { return c4bin(op, t, a[0], a[1]) }, nil)
		}
	}
	// unary
	add("-x", []c4T{t}, tn, "return -x", func(a []float64) c4res { return c4unary("-", t, a[0]) }, nil)
	if t.isInt() {
		add("^x", []c4T{t}, tn, "return ^x", func(a []float64) c4res { return c4unary("^", t, a[0]) }, nil)
	}
	// H. constants
	for _, cs := range c4consts(t, thorough) {
		cs := cs
		c := c4parseConst(cs)
		for _, op := range ops {
			op := op
			ret := tn
			if c4isCmp(op) {
				ret = "bool"
			}
			isShift := op == "<<" || op == ">>"
			// x op c
			if !((op == "/" || op == "%") && c == 0) && !(isShift && (c < 0 || c > 40)) {
				add("x "+op+" "+cs, []c4T{t}, ret, "return x "+op+" "+cs, func(a []float64) c4res { return c4bin(op, t, a[0], c) }, nil)
			}
			// c op x
			add(cs+" "+op+" x", []c4T{t}, ret, "return "+cs+" "+op+" x", func(a []float64) c4res { return c4bin(op, t, c, a[0]) }, nil)
		}
		for _, op := range aops {
			op := op
			isShift := op == "<<" || op == ">>"
			if ((op == "/" || op == "%") && c == 0) || (isShift && (c < 0 || c > 40)) {
				continue
			}
			for _, lv := range c4lvalues[:3] {
				lv := lv
				body := subst(lv.setup) + subst(lv.lv) + " " + op + "= " + cs + "\nreturn " + subst(lv.lv)
				add(lv.name+" "+op+"= "+cs, []c4T{t}, tn, body, func(a []float64) c4res { return c4bin(op, t, a[0], c) }, nil)
			}
		}
		// I. declarations and adoption: result declared `any` so that a missing conversion stays visible
		cv := c4res{v: c, t: t}
		if t != c4f64 {
			cv.v = c4wrap(t, int64(c))
		}
		k := func(a []float64) c4res { return cv }
		add("var v T = "+cs, nil, "any", "var v "+tn+" = "+cs+"\nreturn v", k, nil)
		add("v := T("+cs+")", nil, "any", "v := "+tn+"("+cs+")\nreturn v", k, nil)
		add("var v T; v = "+cs, nil, "any", "var v "+tn+"\nv = "+cs+"\nreturn v", k, nil)
		add("parameter adoption of "+cs, nil, "any", "return id"+tn+"("+cs+")", k, nil)
		add("field init "+cs, nil, "any", "s := &S"+tn+"{f: "+cs+"}\nreturn s.f", k, nil)
		add("field store "+cs, nil, "any", "s := &S"+tn+"{}\ns.f = "+cs+"\nreturn s.f", k, nil)
		add("slice literal "+cs, nil, "any", "s := []"+tn+"{"+cs+"}\nreturn s[0]", k, nil)
		add("slice store "+cs, nil, "any", "s := make([]"+tn+", 1)\ns[0] = "+cs+"\nreturn s[0]", k, nil)
		add("append "+cs, nil, "any", "var s []"+tn+"\ns = append(s, "+cs+")\nreturn s[0]", k, nil)
		add("map literal "+cs, nil, "any", "m := map[int]"+tn+"{1: "+cs+"}\nreturn m[1]", k, nil)
		add("map store "+cs, nil, "any", "m := map[int]"+tn+"{}\nm[1] = "+cs+"\nreturn m[1]", k, nil)
		add("global store "+cs, nil, "any", "G"+tn+" = "+cs+"\nreturn G"+tn, k, nil)
		add("result adoption then use "+cs, []c4T{t}, "any", "v := id"+tn+"("+cs+")\nreturn v + x", func(a []float64) c4res { return c4bin("+", t, c, a[0]) }, nil)
		add("named constant into a declaration "+cs, nil, "any", "const k = "+cs+"\nvar v "+tn+" = k\nreturn v", k, nil)
		add("named constant assigned "+cs, nil, "any", "const k = "+cs+"\nvar v "+tn+"\nv = k\nreturn v", k, nil)
		add("named constant as an argument "+cs, nil, "any", "const k = "+cs+"\nreturn id"+tn+"(k)", k, nil)
		add("named constant in a slice literal "+cs, nil, "any", "const k = "+cs+"\ns := []"+tn+"{k}\nreturn s[0]", k, nil)
		add("named constant as an operand "+cs, []c4T{t}, "any", "const k = "+cs+"\nreturn x + k", func(a []float64) c4res { return c4bin("+", t, a[0], c) }, nil)
		add("tuple assignment to a variable and an element "+cs, nil, "any", "var v "+tn+"\ns := make([]"+tn+", 1)\nv, s[0] = "+cs+", "+cs+"\n_ = s\nreturn v", k, nil)
		add("tuple assignment to an element and a field "+cs, nil, "any", "p := &S"+tn+"{}\ns := make([]"+tn+", 1)\ns[0], p.f = "+cs+", "+cs+"\n_ = s\nreturn p.f", k, nil)
		add("tuple assignment to two elements, first "+cs, nil, "any", "s := make([]"+tn+", 2)\ns[0], s[1] = "+cs+", "+cs+"\nreturn s[0]", k, nil)
		add("tuple assignment to two elements, second "+cs, nil, "any", "s := make([]"+tn+", 2)\nt := make([]"+tn+", 2)\ns[0], t[1] = "+cs+", "+cs+"\n_ = s\nreturn t[1]", k, nil)
		add("tuple assignment to a map entry and an element "+cs, nil, "any", "m := map[int]"+tn+"{}\ns := make([]"+tn+", 1)\nm[1], s[0] = "+cs+", "+cs+"\n_ = s\nreturn m[1]", k, nil)
		add("tuple assignment to a field and an element, the element "+cs, nil, "any", "p := &S"+tn+"{}\ns := make([]"+tn+", 1)\np.f, s[0] = "+cs+", "+cs+"\nreturn s[0]", k, nil)
		add("tuple assignment then use "+cs, []c4T{t}, "any", "s := make([]"+tn+", 2)\ns[0], s[1] = "+cs+", "+cs+"\ns[1] += x\nreturn s[1]", func(a []float64) c4res { return c4bin("+", t, c, a[0]) }, nil)
		add("typed constant "+cs, nil, "any", "const k "+tn+" = "+cs+"\nv := k\nreturn v", k, nil)
		add("typed constant then use "+cs, []c4T{t}, "any", "const k "+tn+" = "+cs+"\nv := k\nv += x\nreturn v", func(a []float64) c4res { return c4bin("+", t, c, a[0]) }, nil)
		// const groups: a line without an expression repeats the previous expression AND its type; a line with an
		// expression of its own and no type is untyped again, and so are the lines that repeat it
		add("typed const group, repeated line "+cs, nil, "any", "const (\n\ta "+tn+" = "+cs+"\n\tb\n)\nv := b\nreturn v", k, nil)
		add("typed const group, repeated line then use "+cs, []c4T{t}, "any", "const (\n\ta "+tn+" = "+cs+"\n\tb\n\tc\n)\nv := c\nv += x\nreturn v", func(a []float64) c4res { return c4bin("+", t, c, a[0]) }, nil)
		if t != c4f64 {
			add("const group: typed line, untyped line, repeated line "+cs, nil, "any", "const (\n\ta "+tn+" = "+cs+"\n\tb = "+cs+"\n\tc\n)\nvar f float64 = c\nreturn f", func(a []float64) c4res { return c4res{v: c, t: c4f64} }, nil)
			add("const group: untyped line, typed line, repeated line "+cs, nil, "any", "const (\n\ta = "+cs+"\n\tb "+tn+" = "+cs+"\n\tc\n)\nvar f float64 = a\nv := c\n_ = v\nreturn f", func(a []float64) c4res { return c4res{v: c, t: c4f64} }, nil)
		}
	}
	// J2. two constants in a row: evaluated left to right ((x op1 c1) op2 c2), never regrouped - regrouping is invisible
	// for wrapping integers but changes float64 rounding (2^53 + 1 + 2, 1e-20 + 1 - 1)
	for _, f := range [][4]string{{"+", "1", "+", "2"}, {"-", "1", "+", "2"}, {"+", "1", "-", "1"}, {"-", "3", "-", "4"}, {"+", "100", "+", "100"}} {
		f := f
		c1, c2 := c4parseConst(f[1]), c4parseConst(f[3])
		or := func(a []float64) c4res {
			first := c4bin(f[0], t, a[0], c1)
			if first.panics {
				return first
			}
			return c4bin(f[2], t, first.v, c2)
		}
		expr := "x " + f[0] + " " + f[1] + " " + f[2] + " " + f[3]
		add(expr, []c4T{t}, tn, "return "+expr, or, nil)
		add("v := x; v = v "+f[0]+" "+f[1]+" "+f[2]+" "+f[3], []c4T{t}, tn, "v := x\nv = v "+f[0]+" "+f[1]+" "+f[2]+" "+f[3]+"\nreturn v", or, nil)
	}
	// K. conversions T -> U
	for _, u := range []c4T{c4i8, c4u8, c4i32, c4u32, c4f64} {
		u := u
		var skip func(a []float64) bool
		if t == c4f64 && u != c4f64 {
			lo, hi := c4minmax(u)
			skip = func(a []float64) bool { // only conversions whose result Go defines
				f := a[0]
				return math.IsNaN(f) || math.IsInf(f, 0) || math.Trunc(f) < float64(lo) || math.Trunc(f) > float64(hi)
			}
		}
		add("conversion to "+c4name[u], []c4T{t}, c4name[u], "return "+c4name[u]+"(x)", func(a []float64) c4res { return c4conv(t, u, a[0]) }, skip)
	}
	// L. shifts whose count has another integer type
	if t.isInt() {
		for _, u := range []c4T{c4i8, c4u8, c4i32, c4u32} {
			if u == t {
				continue
			}
			for _, op := range []string{"<<", ">>"} {
				op, u := op, u
				add("x "+op+" y with y "+c4name[u], []c4T{t, u}, tn, "return x "+op+" y", func(a []float64) c4res { return c4shiftMixed(op, t, u, a[0], a[1]) }, nil)
				add("x "+op+"= y with y "+c4name[u], []c4T{t, u}, tn, "x "+op+"= y\nreturn x", func(a []float64) c4res { return c4shiftMixed(op, t, u, a[0], a[1]) }, nil)
			}
		}
		// L2. an untyped constant shifted by a variable takes its type from where the shift is USED (the declared
		// type, the result type, the other operand), never from the count; the second parameter is the count
		consts := []string{"1", "3", "100"}
		if t == c4i8 || t == c4i32 {
			consts = append(consts, "-8")
		}
		for _, u := range []c4T{c4i8, c4u8, c4i32, c4u32} {
			for _, cs := range consts {
				c := c4parseConst(cs)
				for _, op := range []string{"<<", ">>"} {
					op, u, cs, c := op, u, cs, c
					lit := cs
					if strings.HasPrefix(cs, "-") {
						lit = "(" + cs + ")"
					}
					or := func(a []float64) c4res { return c4shiftMixed(op, t, u, c, a[1]) }
					add("var z T = "+cs+" "+op+" y with y "+c4name[u], []c4T{t, u}, tn, "var z "+tn+" = "+lit+" "+op+" y\nreturn z", or, nil)
					add("return "+cs+" "+op+" y with y "+c4name[u], []c4T{t, u}, tn, "return "+lit+" "+op+" y", or, nil)
					add("z = "+cs+" "+op+" y with y "+c4name[u], []c4T{t, u}, tn, "z := x\nz = "+lit+" "+op+" y\nreturn z", or, nil)
					add("x + "+cs+" "+op+" y with y "+c4name[u], []c4T{t, u}, tn, "return x + "+lit+op+"y", func(a []float64) c4res {
						sh := c4shiftMixed(op, t, u, c, a[1])
						if sh.panics {
							return sh
						}
						return c4bin("+", t, a[0], sh.v)
					}, nil)
				}
			}
		}
	}
	return fs
}

func c4pkgSource(pkg string, t c4T, fs []*c4form) string {
	var b strings.Builder
	b.WriteString("package " + pkg + "\n\n")
	b.WriteString(c4typeDecls(t))
	for _, f := range fs {
		b.WriteString(f.src + "\n")
	}
	return b.String()
}

func c4same(a, b float64) bool {
	if math.IsNaN(a) || math.IsNaN(b) {
		return math.IsNaN(a) && math.IsNaN(b)
	}
	return math.Float64bits(a) == math.Float64bits(b)
}

func c4fmt(r c4res) string {
	if r.panics {
		return "run-time panic"
	}
	if r.t == c4bool {
		return fmt.Sprintf("%v (bool)", r.v != 0)
	}
	return fmt.Sprintf("%v (%s)", r.v, c4name[r.t])
}

// c4call runs one form on one argument tuple; returns the observation as a string comparable with c4fmt.
func c4call(m *goat.M, fn goatlang.Value, f *c4form, args []float64) string {
	vals := make([]goatlang.Value, len(args))
	for i, a := range args {
		vals[i] = c4value(f.argT[i], a)
	}
	r := m.Func(fn, 1, vals...)
	if r.HostPanic != nil {
		return fmt.Sprintf("HOST PANIC %v", r.HostPanic)
	}
	if r.Err != nil {
		return "run-time panic"
	}
	v := r.Rets[0]
	ty := m.TypeOf(v)
	if ty == "bool" {
		return fmt.Sprintf("%v (bool)", v.Bool())
	}
	return fmt.Sprintf("%v (%s)", v.Float64(), ty)
}

type c4replay struct {
	Type int      `json:"type"`
	Tier string   `json:"tier"`
	Form string   `json:"form"`
	Args []string `json:"args"` // strconv 'g' -1 (NaN, Inf and -0 survive JSON)
}

func c4forEachArgs(f *c4form, fn func(args []float64)) {
	switch len(f.argT) {
	case 0:
		fn(nil)
	case 1:
		for _, a := range c4values(f.argT[0]) {
			if f.skip != nil && f.skip([]float64{a}) {
				continue
			}
			fn([]float64{a})
		}
	case 2:
		bs := c4values(f.argT[1])
		for _, a := range c4values(f.argT[0]) {
			for _, b := range bs {
				if f.skip != nil && f.skip([]float64{a, b}) {
					continue
				}
				fn([]float64{a, b})
			}
		}
	}
}

const c4perPkg = 250

func c4run(r *report.Run) {
	thorough := r.Tier == "thorough"
	r.Rule("forms = operator x type x syntactic position (var op var, op= and ++/-- on 7 lvalue kinds, x = x op y, unary, var op const / const op var / op= const over a constant set, 22 declaration/adoption positions (incl. typed and named untyped constants, tuple assignments to elements and fields), conversions among all 5 types, shifts with a count of another type, untyped constants shifted by a variable in four typed contexts); every form is called with every operand tuple: all 256x256 pairs for int8/uint8, the full boundary square for int32/uint32/float64; non-trivial = distinct (form, operands) whose Go result wraps, truncates, changes sign, panics or is a comparison")
	r.Assume("native Go arithmetic compiled into the harness is the oracle; every form is also compiled and spot-run by the Go toolchain", "32-bit and float64 operands are boundary sets, not all values", "amd64 semantics for float->integer conversions are not relied on: conversions whose result Go leaves implementation-defined are skipped")
	types := []c4T{c4i8, c4u8, c4i32, c4u32, c4f64}
	type job struct {
		t   c4T
		pkg string
		fs  []*c4form
		src string
	}
	var jobs []job
	nForms := 0
	for _, t := range types {
		fs := c4forms(t, thorough)
		nForms += len(fs)
		for s := 0; s < len(fs); s += c4perPkg {
			e := s + c4perPkg
			if e > len(fs) {
				e = len(fs)
			}
			pkg := fmt.Sprintf("n%s%03d", c4name[t], s/c4perPkg)
			jobs = append(jobs, job{t, pkg, fs[s:e], c4pkgSource(pkg, t, fs[s:e])})
		}
	}
	r.Set("forms", nForms)
	// heavy forms first is not needed: dynamic hand-out
	par.Do(len(jobs), func(k int) {
		j := jobs[k]
		m := goat.New()
		defer m.Close()
		lr := m.Load(goat.FS(map[string]string{j.pkg + "/x.go": j.src}), j.pkg)
		if lr.Failed() {
			r.Fail(&report.Case{Kind: "load", Key: c4name[j.t] + " forms " + j.fs[0].name + ".. do not load", Files: map[string]string{j.pkg + "/x.go": j.src}, Want: "package loads", Got: lr.String()})
			return
		}
		for fi, f := range j.fs {
			if r.Expired() {
				return
			}
			fn := m.VM.Get(j.pkg + "." + f.name)
			n, nt := 0, 0
			var firstBad []float64
			var firstWant, firstGot string
			bad := 0
			c4forEachArgs(f, func(args []float64) {
				want := f.eval(args)
				got := c4call(m, fn, f, args)
				n++
				ws := c4fmt(want)
				// non-trivial: wraps / panics / comparison / conversion changes value
				if want.panics || want.t == c4bool || (len(args) > 0 && !c4plain(f, args, want)) {
					nt++
				}
				if got != ws && !(math.IsNaN(want.v) && strings.HasPrefix(got, "NaN")) {
					bad++
					if firstBad == nil {
						firstBad, firstWant, firstGot = append([]float64{}, args...), ws, got
					}
				}
			})
			r.Eval(n)
			r.NontrivialN(nt)
			if bad > 0 {
				r.Fail(&report.Case{Kind: "form", Key: f.key, Input: c4replay{int(j.t), r.Tier, f.key, c4strs(firstBad)},
					Want: firstWant, Got: fmt.Sprintf("%s   [first of %d failing operand tuples: %v]\n%s", firstGot, bad, firstBad, f.src)})
			}
			if (k*7+fi)%211 == 0 {
				r.Sample(map[string]any{"form": f.key, "source": f.src, "operand_tuples": n})
			}
		}
	})
	// every form through the Go toolchain: validity + spot agreement of O-native with Go
	cache := oracle.OpenCache("c04")
	defer cache.Save()
	var progs []*oracle.Prog
	type spot struct {
		f    *c4form
		args [][]float64
	}
	var spots [][]spot
	for _, j := range jobs {
		var sp []spot
		var mainB strings.Builder
		mainB.WriteString("\nfunc Main() {\n")
		for _, f := range j.fs {
			var tuples [][]float64
			c4forEachArgs(f, func(a []float64) { tuples = append(tuples, append([]float64{}, a...)) })
			// spot values: first, last, and 3 spread positions that do not panic
			var pick [][]float64
			for _, idx := range []int{0, len(tuples) / 5, len(tuples) / 2, (len(tuples) * 4) / 5, len(tuples) - 1} {
				if idx >= 0 && idx < len(tuples) && !f.eval(tuples[idx]).panics {
					pick = append(pick, tuples[idx])
				}
			}
			for _, a := range pick {
				var as []string
				for i, x := range a {
					as = append(as, c4goLit(f.argT[i], x))
				}
				fmt.Fprintf(&mainB, "\tfmt.Printf(\"%%v %%T\\n\", %s(%s), %s(%s))\n", f.name, strings.Join(as, ", "), f.name, strings.Join(as, ", "))
			}
			sp = append(sp, spot{f, pick})
		}
		mainB.WriteString("}\n")
		src := strings.Replace(j.src, "package "+j.pkg+"\n", "package "+j.pkg+"\n\nimport (\n\t\"fmt\"\n\t\"math\"\n)\n\nvar _ = math.Pi\n", 1) + mainB.String()
		progs = append(progs, &oracle.Prog{Pkg: j.pkg, Files: map[string]string{"x.go": src}, Entry: "Main"})
		spots = append(spots, sp)
	}
	gres, err := cache.Run(progs)
	validated := 0
	if err != nil {
		r.HarnessError("Go oracle: %v", err)
	} else {
		for k, gr := range gres {
			if gr.BuildErr != "" {
				r.HarnessError("a C04 form is not valid Go: %s", gr.BuildErr)
				continue
			}
			lines := strings.Split(strings.TrimRight(gr.Out, "\n"), "\n")
			li := 0
			for _, sp := range spots[k] {
				for _, a := range sp.args {
					if li >= len(lines) {
						r.HarnessError("Go oracle output too short for %s", progs[k].Pkg)
						break
					}
					want := sp.f.eval(a)
					ws := c4goFmt(want)
					if lines[li] != ws {
						r.HarnessError("O-native disagrees with the Go toolchain on %s%v: Go %q, native %q", sp.f.key, a, lines[li], ws)
					}
					validated++
					li++
				}
			}
		}
	}
	r.Set("traces_validated_against_impl", validated)
	r.Set("forms_compiled_and_spot_run_by_go_toolchain", len(progs))
	if r.Expired() {
		r.NotExhaustive("internal deadline reached")
	}
}

// c4plain: the mathematically exact result equals the Go result (nothing wrapped) — used only to count non-trivial cases.
func c4plain(f *c4form, args []float64, want c4res) bool {
	if len(args) == 2 && !strings.Contains(f.key, "<<") && !strings.Contains(f.key, ">>") {
		a, b := args[0], args[1]
		for _, x := range []float64{a + b, a - b, a * b} {
			if x == want.v {
				return true
			}
		}
		return false
	}
	return false
}

func c4goLit(t c4T, x float64) string {
	if t == c4f64 {
		switch {
		case math.IsNaN(x):
			return "math.NaN()"
		case math.IsInf(x, 1):
			return "math.Inf(1)"
		case math.IsInf(x, -1):
			return "math.Inf(-1)"
		case x == 0 && math.Signbit(x):
			return "math.Copysign(0, -1)"
		}
		return fmt.Sprintf("%v", x)
	}
	return fmt.Sprintf("%d", int64(x))
}

func c4goFmt(r c4res) string {
	if r.t == c4bool {
		return fmt.Sprintf("%v bool", r.v != 0)
	}
	switch r.t {
	case c4i8:
		return fmt.Sprintf("%v int8", int8(r.v))
	case c4u8:
		return fmt.Sprintf("%v uint8", uint8(r.v))
	case c4i32:
		return fmt.Sprintf("%v int32", int32(r.v))
	case c4u32:
		return fmt.Sprintf("%v uint32", uint32(r.v))
	}
	return fmt.Sprintf("%v float64", r.v)
}

func c4strs(a []float64) []string {
	out := make([]string, len(a))
	for i, x := range a {
		out[i] = strconv.FormatFloat(x, 'g', -1, 64)
	}
	return out
}

func c4floats(a []string) []float64 {
	out := make([]float64, len(a))
	for i, x := range a {
		out[i], _ = strconv.ParseFloat(x, 64)
	}
	return out
}

func c4rerun(c *report.Case) (bool, string) {
	var in c4replay
	if !remarshal(c.Input, &in) {
		return false, "bad replay input"
	}
	if c.Kind == "load" {
		for name, src := range c.Files {
			m := goat.New()
			defer m.Close()
			lr := m.Load(goat.FS(map[string]string{name: src}), strings.Split(name, "/")[0])
			return lr.Failed(), lr.String()
		}
	}
	t := c4T(in.Type)
	for _, f := range c4forms(t, in.Tier == "thorough") {
		if f.key != in.Form {
			continue
		}
		m := goat.New()
		defer m.Close()
		src := c4pkgSource("p", t, []*c4form{f})
		if lr := m.Load(goat.FS(map[string]string{"p/x.go": src}), "p"); lr.Failed() {
			return true, lr.String()
		}
		args := c4floats(in.Args)
		got := c4call(m, m.VM.Get("p."+f.name), f, args)
		return got != c4fmt(f.eval(args)), got
	}
	return false, "form not found"
}

func init() { register("C04", c4run, c4rerun) }
