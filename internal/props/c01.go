package props

import (
	"fmt"
	"sort"
	"strings"

	"verif/internal/goat"
	"verif/internal/oracle"
	"verif/internal/par"
	"verif/internal/report"
)

// C01 — programs in the supported Go subset run exactly as the Go toolchain runs them.
//
// Seven finite profiles of the subset grammar (DESIGN.md §4), each enumerated
// completely, plus the corpora of C06, C08, C09, C11, C12 and C16 at reduced
// bounds.  The SAME source text is compiled and run by the Go toolchain and by
// goatlang; compared: stdout bytes and "ended in a run-time panic / error".

// a snippet package: shared declarations + many snippets, each a niladic function printing its results
type c1pkg struct {
	name     string
	decls    string
	snippets []string // function bodies
	keys     []string // description per snippet
	extra    map[string]string
	single   bool // one program per package (profile 7: panics end the program)
}

func (p *c1pkg) source() string {
	var b strings.Builder
	b.WriteString("package " + p.name + "\n\n")
	b.WriteString(p.decls)
	for i, s := range p.snippets {
		fmt.Fprintf(&b, "func S%d() {\n%s}\n\n", i, s)
	}
	b.WriteString("func Main() {\n")
	for i := range p.snippets {
		if !p.single {
			fmt.Fprintf(&b, "\tfmt.Println(\"#%d\")\n", i)
		}
		fmt.Fprintf(&b, "\tS%d()\n", i)
	}
	b.WriteString("}\n")
	return b.String()
}

func (p *c1pkg) files() map[string]string {
	f := map[string]string{"main.go": p.source()}
	for k, v := range p.extra {
		f[k] = v
	}
	return f
}

// --- profile 1: lvalue x operator x type x context x rhs -----------------------------------

const c1decls = `import "fmt"

type H struct {
	f  int
	b  byte
	fl float64
	s  string
	l  []int
	lb []byte
	lf []float64
	ls []string
}

func (h *H) GetI() int {
	return h.f
}

func (h *H) GetB() byte {
	return h.b
}

func (h *H) GetF() float64 {
	return h.fl
}

func (h *H) GetS() string {
	return h.s
}

func (h *H) AddI(r int) {
	h.f += r
}

func oneI() int {
	return 3
}

func oneB() byte {
	return 3
}

func oneF() float64 {
	return 1.5
}

func oneS() string {
	return "q"
}

var GI = 5
var GB byte = 250
var GF = 2.5
var GS = "g"
var two = []int{10, 20}

`

type c1ty struct {
	name, field, list, getter, one, global, init, lit string
	ops                                               []string
}

var c1types = []c1ty{
	{"int", "f", "l", "GetI", "oneI", "GI", "5", "3", []string{"=", "+=", "-=", "*=", "/=", "%=", "&=", "|=", "^=", "<<=", ">>=", "++", "--"}},
	{"byte", "b", "lb", "GetB", "oneB", "GB", "250", "3", []string{"=", "+=", "-=", "*=", "/=", "%=", "&=", "|=", "^=", "<<=", ">>=", "++", "--"}},
	{"float64", "fl", "lf", "GetF", "oneF", "GF", "2.5", "1.5", []string{"=", "+=", "-=", "*=", "/="}},
	{"string", "s", "ls", "GetS", "oneS", "GS", "\"g\"", "\"q\"", []string{"=", "+="}},
}

func c1profile1(thorough bool) []*c1pkg {
	lvalues := []struct{ name, setup, lv string }{
		{"local", "x := %T(%I)\n", "x"},
		{"global", "%G = %I\n", "%G"},
		{"struct field", "s := &H{%F: %I}\n", "s.%F"},
		{"map element", "m := map[string]%T{\"k\": %I}\n", "m[\"k\"]"},
		{"slice element", "a := []%T{%I, %I}\n", "a[1]"},
		{"field of a struct held in a map", "ms := map[string]*H{\"k\": &H{%F: %I}}\n", "ms[\"k\"].%F"},
		{"element of a slice held in a struct", "s := &H{%L: []%T{%I, %I}}\n", "s.%L[1]"},
		{"field of a struct held in a slice", "sl := []*H{&H{%F: %I}, &H{%F: %I}}\n", "sl[1].%F"},
	}
	rhss := []struct{ name, setup, expr string }{
		{"constant", "", "%C"},
		{"local", "r := %T(%C)\n", "r"},
		{"call result", "", "%O()"},
		{"method result", "h := &H{%F: %C}\n", "h.%M()"},
		{"index expression", "arr := []%T{%C}\n", "arr[0]"},
		{"field", "h := &H{%F: %C}\n", "h.%F"},
	}
	contexts := []struct{ name, open, close string }{
		{"function top", "", ""},
		{"if then", "if GI > 0 {\n", "}\n"},
		{"else", "if GI < 0 {\n\tfmt.Println(\"no\")\n} else {\n", "}\n"},
		{"for body", "for i := 0; i < 2; i++ {\n", "}\n"},
		{"range body", "for _, v := range two {\n\t_ = v\n", "}\n"},
		{"switch case", "switch GI {\ncase 5:\n", "}\n"},
		{"default", "switch GI {\ncase 1:\n\tfmt.Println(\"no\")\ndefault:\n", "}\n"},
		{"loop in loop", "for i := 0; i < 2; i++ {\n\tfor j := 0; j < 2; j++ {\n", "\t}\n}\n"},
	}
	if !thorough {
		contexts = []struct{ name, open, close string }{contexts[0], contexts[3], contexts[6], contexts[4]}
		rhss = rhss[:4]
	}
	var pkgs []*c1pkg
	cur := &c1pkg{decls: c1decls}
	flush := func() {
		if len(cur.snippets) > 0 {
			cur.name = fmt.Sprintf("pa%04d", len(pkgs))
			pkgs = append(pkgs, cur)
		}
		cur = &c1pkg{decls: c1decls}
	}
	for _, ty := range c1types {
		sub := func(s string) string {
			return strings.NewReplacer("%T", ty.name, "%I", ty.init, "%F", ty.field, "%L", ty.list, "%G", ty.global, "%C", ty.lit, "%O", ty.one, "%M", ty.getter).Replace(s)
		}
		for _, lv := range lvalues {
			for _, op := range ty.ops {
				for _, rh := range rhss {
					if (op == "++" || op == "--") && rh.name != "constant" {
						continue
					}
					for _, cx := range contexts {
						var stmt string
						switch op {
						case "++", "--":
							stmt = sub(lv.lv) + op
						default:
							stmt = sub(lv.lv) + " " + op + " " + sub(rh.expr)
						}
						body := sub(lv.setup) + sub(rh.setup) + cx.open + "\t" + stmt + "\n" + cx.close + "fmt.Println(" + sub(lv.lv) + ")\n"
						cur.snippets = append(cur.snippets, c02indent(strings.TrimRight(body, "\n"), "\t"))
						cur.keys = append(cur.keys, fmt.Sprintf("%s %s %s (%s) in %s, rhs %s", lv.name, ty.name, op, stmt, cx.name, rh.name))
						if len(cur.snippets) == 150 {
							flush()
						}
					}
				}
			}
		}
	}
	flush()
	return pkgs
}

// --- profile 2: every statement form in every block context (nesting depth <= 2) -----------------

func c1profile2(thorough bool) []*c1pkg {
	decls := "import \"fmt\"\n\ntype T struct {\n\tn int\n}\n\nfunc (t *T) Inc() int {\n\tt.n++\n\treturn t.n\n}\n\nfunc f() int {\n\treturn 2\n}\n\nfunc g() (int, string) {\n\treturn 3, \"g\"\n}\n\nvar G = 1\n\n"
	stmts := []string{
		"a := 1\nx += a", "var a int\nx += a + 1", "var a, b = 1, 2\nx += a * b", "a, b := 1, \"s\"\nx += a\nz += b", "x = 2", "x, y = y, x", "x += 2", "x -= y", "x *= 3", "x++", "y--",
		"const c = 3\nx += c", "a, b := g()\nx += a\nz += b", "_, b := g()\nz += b", "a, _ := g()\nx += a",
		"if x > 0 {\n\tx = 10\n}", "if x < 0 {\n\tx = 10\n} else {\n\tx = 20\n}", "if a := f(); a > x {\n\tx = a\n} else if a == x {\n\tx = 0\n} else {\n\tx = -a\n}",
		"for i := 0; i < 3; i++ {\n\tx += i\n}", "for x < 5 {\n\tx += 2\n}", "for {\n\tx++\n\tif x > 3 {\n\t\tbreak\n\t}\n}", "for i, v := range s {\n\tx += i * v\n}", "for _, v := range s {\n\tif v == 2 {\n\t\tcontinue\n\t}\n\tx += v\n}",
		"for k := range m {\n\tz += k\n}", "for range s {\n\tx++\n}", "for i, c := range \"hé!\" {\n\tx += i + int(c)\n}", "for i := range s {\n\ts[i] *= 2\n}",
		"switch x {\ncase 1:\n\tx = 100\ncase 2:\n\tx = 200\ndefault:\n\tx = 300\n}", "switch {\ncase x > 1:\n\tx = 7\ncase y > 1:\n\tx = 8\n}", "switch z {\ncase \"q\":\n\tx = 1\ndefault:\n\tbreak\n}",
		"s = append(s, x)", "s = append(s, s...)", "delete(m, \"k\")", "copy(s, []int{9})", "s[0] = x + 1", "m[\"n\"] = x", "m[\"k\"] += 2", "t.n = x", "t.n += 2", "t.Inc()", "x = t.Inc() + f()", "f()",
		"v, ok := m[\"k\"]\nif ok {\n\tx += v\n}", "v, ok := m[\"zz\"]\nif !ok {\n\tx += v + 1\n}", "_ = x", "G += x", "G++", "if len(s) > 1 {\n\ts = s[1:]\n}", "s = s[:1]", "z = z + \"!\"", "z += fmt.Sprint(x)", "w := &T{n: x}\nx = w.Inc()", "h := t.Inc\nx = h()", "k := f\nx = k()", "q := func(a int) int {\n\treturn a * 2\n}\nx = q(x)",
		"var e []string\ne = append(e, z)\nx += len(e)", "mm := map[int][]int{}\nmm[1] = append(mm[1], x)\nx += len(mm[1]) + len(mm[2])", "var p *T\nif p == nil {\n\tp = t\n}\np.n++",
	}
	ctxs := []struct{ open, close string }{
		{"", ""},
		{"if y > 0 {\n", "}\n"},
		{"if y < 0 {\n\tx = -1\n} else {\n", "}\n"},
		{"for j := 0; j < 2; j++ {\n", "}\n"},
		{"for _, u := range []int{1, 2} {\n\t_ = u\n", "}\n"},
		{"switch y {\ncase 2:\n", "}\n"},
		{"switch y {\ncase 1:\n\tx = -2\ndefault:\n", "}\n"},
		{"for n := 0; n < 3; n++ {\n\tif n == 1 {\n\t\tcontinue\n\t}\n", "}\n"},
	}
	var pkgs []*c1pkg
	cur := &c1pkg{decls: decls}
	flush := func() {
		if len(cur.snippets) > 0 {
			cur.name = fmt.Sprintf("pb%04d", len(pkgs))
			pkgs = append(pkgs, cur)
		}
		cur = &c1pkg{decls: decls}
	}
	wrap := func(st string, c int) string {
		if ctxs[c].open == "" {
			return st
		}
		return ctxs[c].open + c02indent(st, "\t") + ctxs[c].close
	}
	for si, st := range stmts {
		for c1 := range ctxs {
			inner := []int{0}
			if c1 > 0 {
				inner = []int{0, 1, 3, 6}
				if thorough {
					inner = []int{0, 1, 2, 3, 4, 5, 6, 7}
				}
			}
			for _, c2 := range inner {
				if c1 > 0 && c2 == c1 && (c1 == 3 || c1 == 7) {
					continue // the same loop variable twice
				}
				body := strings.TrimRight(wrap(strings.TrimRight(wrap(st, c2), "\n"), c1), "\n")
				full := "x, y, z := 1, 2, \"q\"\ns := []int{1, 2, 3}\nm := map[string]int{\"k\": 5}\nt := &T{n: 4}\nG = 1\n" + body + "\nsum := 0\nfor _, e := range s {\n\tsum = (sum*3 + e) % 10007\n}\nfmt.Println(x, y, z, len(s), sum, len(m), m[\"k\"], m[\"n\"], t.n, G)"
				cur.snippets = append(cur.snippets, c02indent(full, "\t"))
				cur.keys = append(cur.keys, fmt.Sprintf("statement %d in context %d/%d: %s", si, c1, c2, strings.ReplaceAll(st, "\n", "; ")))
				if len(cur.snippets) == 120 {
					flush()
				}
			}
		}
	}
	flush()
	return pkgs
}

// --- profile 3: types and containers --------------------------------------------------------

func c1profile3() []*c1pkg {
	decls := "import \"fmt\"\n\ntype S struct {\n\tn int\n\tt string\n\tin *S\n}\n\nfunc (s *S) N() int {\n\treturn s.n\n}\n\nfunc (s *S) Diff(o *S) int {\n\treturn s.n - o.n\n}\n\nfunc (s *S) Plus(k int) *S {\n\treturn &S{n: s.n + k}\n}\n\nvar cnt int\n\nfunc next() int {\n\tcnt++\n\treturn cnt\n}\n\nvar objs = []*S{&S{}, &S{}, &S{}}\nvar objN int\n\nfunc obj() *S {\n\tobjN++\n\treturn objs[objN-1]\n}\n\n"
	p := &c1pkg{name: "pc0000", decls: decls}
	add := func(key, body string) {
		p.snippets = append(p.snippets, c02indent(strings.TrimRight(body, "\n"), "\t"))
		p.keys = append(p.keys, key)
	}
	elems := []struct{ t, a, b, zeroTest string }{
		{"int", "7", "9", "== 0"}, {"byte", "250", "9", "== 0"}, {"float64", "0.5", "2.5", "== 0.0"}, {"string", "\"a\"", "\"b\"", "== \"\""}, {"bool", "true", "false", "== false"},
		{"int8", "-100", "100", "== 0"}, {"uint32", "4000000000", "5", "== 0"}, {"rune", "'x'", "'y'", "== 0"},
	}
	for _, e := range elems {
		t := e.t
		add("[]"+t+" read write append len range", fmt.Sprintf("s := []%s{%s}\ns = append(s, %s)\ns[0] = %s\nfmt.Println(len(s), s[0] == s[1], s[1] == %s)\nn := 0\nfor i, v := range s {\n\tif v == %s {\n\t\tn += i + 1\n\t}\n}\nfmt.Println(n)\nvar z []%s\nfmt.Println(len(z), z == nil)\nz = append(z, %s)\nfmt.Println(len(z), z[0] == %s)\n", t, e.a, e.b, e.b, e.b, e.b, t, e.a, e.a))
		add("make([]"+t+") zero values", fmt.Sprintf("s := make([]%s, 3)\nfmt.Println(len(s), s[0] %s, s[2] %s)\ns[1] = %s\nfmt.Println(s[1] == %s, s[0] %s)\n", t, e.zeroTest, e.zeroTest, e.a, e.a, e.zeroTest))
		for _, k := range []struct{ t, a, b string }{{"string", "\"k\"", "\"z\""}, {"int", "4", "5"}, {"bool", "true", "false"}, {"float64", "1.5", "2.5"}} {
			add("map["+k.t+"]"+t, fmt.Sprintf("m := map[%s]%s{%s: %s}\nm[%s] = %s\nv, ok := m[%s]\nw, ok2 := m[%s]\nfmt.Println(len(m), v == %s, ok, w %s, ok2)\ndelete(m, %s)\nfmt.Println(len(m))\nm[%s] = %s\nn := 0\nfor kk, vv := range m {\n\tif kk == %s && vv == %s {\n\t\tn++\n\t}\n}\nfmt.Println(n, len(m))\nvar zm map[%s]%s\nfmt.Println(len(zm), zm == nil, zm[%s] %s)\n",
				k.t, t, k.a, e.a, k.a, e.b, k.a, k.b, e.b, e.zeroTest, k.a, k.a, e.a, k.a, e.a, k.t, t, k.a, e.zeroTest))
		}
		add("struct field of type "+t, fmt.Sprintf("type L struct {\n\tv %s\n\tl []%s\n\tm map[string]%s\n}\nx := &L{}\nfmt.Println(x.v %s, x.l == nil, x.m == nil, len(x.l))\nx.v = %s\nx.l = append(x.l, %s)\nx.m = map[string]%s{}\nx.m[\"k\"] = %s\nfmt.Println(x.v == %s, x.l[0] == %s, x.m[\"k\"] == %s)\n", t, t, t, e.zeroTest, e.a, e.b, t, e.a, e.a, e.b, e.a))
		add("[][]"+t+" and map[string][]"+t, fmt.Sprintf("g := [][]%s{{%s}, {%s, %s}}\ng[0] = append(g[0], %s)\ng = append(g, nil)\nfmt.Println(len(g), len(g[0]), len(g[1]), len(g[2]), g[1][1] == %s, g[2] == nil)\nmm := map[string][]%s{}\nmm[\"a\"] = append(mm[\"a\"], %s)\nmm[\"a\"] = append(mm[\"a\"], %s)\nfmt.Println(len(mm[\"a\"]), len(mm[\"b\"]), mm[\"a\"][1] == %s)\n", t, e.a, e.a, e.b, e.b, e.b, t, e.a, e.b, e.b))
	}
	add("[]*S and map[string]*S and *S in *S", "a := []*S{&S{n: 1}, &S{n: 2, t: \"two\"}}\na = append(a, &S{n: 3, in: a[0]})\na[2].in.n = 9\nfmt.Println(len(a), a[0].n, a[1].t, a[2].in.N(), a[2].in == a[0], a[1].in == nil)\nm := map[string]*S{\"x\": a[1]}\nm[\"x\"].n += 5\nm[\"y\"] = &S{n: m[\"x\"].n}\nfmt.Println(a[1].n, m[\"y\"].N(), m[\"z\"] == nil, len(m))\nt := 0\nfor _, p := range a {\n\tt += p.N()\n}\nfmt.Println(t)\n")
	add("named types", "type Vec []float64\ntype Reg map[string]int\ntype ID int\ntype Ref = S\nv := Vec{1, 2}\nv = append(v, 3)\nr := Reg{\"a\": 1}\nr[\"b\"] = 2\nvar id ID = 7\nq := &Ref{n: 4}\nfmt.Println(len(v), v[2]/2, len(r), r[\"b\"], id+1, q.N())\n")
	add("conversion to named slice, map and func types", "type B []byte\ntype IDs []int\ntype Reg map[string]int\ntype Gen func() int\nb := B(\"abc\")\nx := []int{1, 2}\nids := IDs(x)\nids[0] = 7\nr := Reg(map[string]int{\"a\": 1})\nr[\"b\"] = 2\ncnt = 0\ng := Gen(next)\nfmt.Println(len(b), b, string(b), len(ids), ids, x, len(r), r[\"a\"], g(), g())\nu := IDs(nil)\nfmt.Println(u, len(u), u == nil)\nu = append(u, 3)\ny := []int(ids)\nfmt.Println(u, string(B(\"xyz\")), y, Reg(nil) == nil, len(Reg(nil)))\n")
	add("declarations initialized with nil", "var s []int = nil\nvar m map[string]int = nil\nvar f func() int = nil\nvar bs []byte = nil\nt := []int(nil)\nfmt.Println(s, m, len(s), len(m), s == nil, m == nil, f == nil, t, len(t), t == nil, string(bs)+\"|\")\ns = append(s, 1)\nt = append(t, 2)\nfor range bs {\n\tfmt.Println(\"never\")\n}\nvar s2 []int = []int{4}\nvar m2 map[string]int = map[string]int{\"k\": 1}\nfmt.Println(s, t, s2, m2)\n")
	add("local type, function literal, local type again", "type pt struct {\n\tx int\n\tname string\n}\na := &pt{x: 3, name: \"pt\"}\nsq := func(v int) int {\n\treturn v * v\n}\nb := &pt{x: sq(4), name: a.name}\nfmt.Println(sq(a.x), a.name)\nfmt.Println(b.x, b.name)\ntype pair struct {\n\tl *pt\n\tr *pt\n}\nc := &pair{l: a, r: b}\nfmt.Println(c.l.x+c.r.x, sq(c.r.x))\n")
	add("NaN and infinities in comparisons", "z := 0.0\nn := z / z\ni := 1 / z\nfmt.Println(n < 1, n <= 1, n > 1, n >= 1, n == n, n != n, 1 <= n, 1 >= n)\nfmt.Println(i > 1e308, -i < 0, i == i, i >= i, i <= -i)\nlo, hi, v := 0.0, 10.0, n\nif v >= lo && v <= hi {\n\tfmt.Println(\"in range\")\n} else {\n\tfmt.Println(\"out of range\")\n}\n")
	add("op= and ++ evaluate the operands of their target once", "cnt = 0\nobjN = 0\nm := map[int]int{}\nm[next()] += 5\nm[next()]++\ns := []int{0, 0, 0, 0}\ns[next()] += 7\ns[next()-1]--\nobj().n += 4\nobj().n++\nobj().t += \"x\"\nfmt.Println(cnt, len(m), m[1], m[2], s, objN, objs[0].n, objs[1].n, objs[2].t)\n")
	add("a store evaluates the operands of its target before the right-hand side", "cnt = 0\nobjN = 0\nm := map[int]int{}\nm[next()] = next()\ns := []int{0, 0, 0, 0, 0, 0}\ns[next()] = next()\nobj().n = next()\nfmt.Println(m[1], m[2], len(m), s, objs[0].n, cnt, objN)\n")
	add("the receiver of a method call is evaluated before the arguments", "cnt = 0\nobjN = 0\nobjs[0].n, objs[1].n, objs[2].n = 1, 10, 100\nfmt.Println(obj().Diff(obj()), objN)\nobjN = 0\nfmt.Println(obj().Plus(objN).Plus(next()).Plus(next()*10).n, (&S{n: next()}).Plus(next()*10).n)\nobjs[0].n, objs[1].n, objs[2].n = 0, 0, 0\n")
	add("op= with a call on the right stores into the element it read", "cnt = 0\ni := 0\nxs := []int{1, 2, 3}\nbump := func() int {\n\treturn 10\n}\nxs[i] += bump()\nxs[cnt] += next() * 100\nfmt.Println(xs[0]+xs[1]+xs[2], cnt)\nobjN = 0\nobjs[0].n, objs[1].n = 1, 100\nh := objs[0]\nh.n += obj().n + obj().n\nfmt.Println(objs[0].n)\nobjs[0].n, objs[1].n = 0, 0\n")
	add("typed const groups repeat the type", "type Color uint8\nconst (\n\tRed Color = iota\n\tGreen\n\tBlue\n)\nconst (\n\tF0 float64 = iota\n\tF1\n\tN = 7\n\tM\n)\nconst (\n\tX uint8 = iota + 250\n\tY\n\tZ\n)\nc := Blue\nc += 254\ng := Green\nf := F1\ny := Y\ny += 10\nz := Z\nz += 5\nfmt.Println(c, g-2, f/2, M/2, y, z, Red, X)\n")
	add("values of different kinds in any-typed variables are unequal", "same := func(a, b any) bool {\n\treturn a == b\n}\nisNil := func(x any) bool {\n\treturn x == nil\n}\nfmt.Println(isNil(\"s\"), same(\"a\", nil), same(nil, \"a\"), same(\"a\", 1), same(\"\", false), same(0, \"\"), same(false, \"\"), same(0, false), same(\"a\", \"a\"), same(2, 2), same(true, true), isNil(nil), same(nil, 0), same(1.5, \"1.5\"))\nm := map[string]any{\"k\": \"v\", \"n\": 1}\nfmt.Println(m[\"k\"] == nil, m[\"z\"] == nil, m[\"k\"] != nil, m[\"k\"] == \"v\", m[\"n\"] == \"v\", m[\"n\"] == 1)\nfor _, x := range []any{\"a\", 1, nil, false} {\n\tfmt.Println(x == nil, x == \"a\", x == 1, x == false)\n}\n")
	add("rune slices and strings", "rs := []rune{'a', 'é', 0x4e16}\nfmt.Println(string(rs), len(string(rs)))\nvar r2 []rune\nfor _, r := range \"世界\" {\n\tr2 = append(r2, r)\n}\nfmt.Println(string(r2) == \"世界\", []byte(string(r2)), len(r2))\nq := []rune(\"héllo\")\nq[0] = 'J'\nfmt.Println(len(q), q, string(q[1:3]), string(q), len([]rune(\"\")), string([]rune{}) == \"\")\nbs := []byte(\"hé\")\nfmt.Println(len(bs), bs, string(bs), string(bs[:1]))\n")
	add("conversions of nil to slice types keep the element type", "k := append([]float64(nil), 1)\nb := append([]byte(nil), 200)\nb[0] += 100\nj := []float64(nil)\nj = append(j, 1, 2)\nj[1] = 3\nvar d []float64 = []float64(nil)\nd = append(d, 1)\nmm := map[string][]float64{\"a\": []float64(nil)}\nmm[\"a\"] = append(mm[\"a\"], 1)\ng := [][]float64{[]float64(nil), {1}}\ng[0] = append(g[0], 2)\nfmt.Println(k[0]/2, b[0], b, j[0]/2, j[1]/2, d[0]/2, mm[\"a\"][0]/2, g, g[0][0]/4, []int(nil) == nil, len([]string(nil)), append([]string(nil), \"a\"))\n")
	add("named untyped constants take the type of their context", "const N = 10\nconst (\n\tRed = iota\n\tGreen\n\tBlue\n)\nvar f float64 = N\ng := 1.5\ng = N\nvar b byte = N\nvar c uint8 = Blue\ncs := []float64{Red, Green, Blue}\nx := N\nvar u uint32 = N\nfmt.Println(f/4, g/4, b+250, c-3, cs[1]/2, x/4, N/4, u-11)\n")
	add("tuple assignment: operands first, then stores left to right", "s := []int{1, 2, 3}\nt := s[:1]\ns[0], t[0] = 7, 8\ni := 0\ns[i], i = 5, 1\ns[i], s[i+1] = s[i+1], s[i]\na := &S{}\nb := a\na.n, b.n = 1, 2\nm := map[string]int{}\nu := 0\nm[\"k\"], u, _ = 1, 2, 3\nq := []int{1, 2}\nq[0], q[1] = q[1], q[0]\nfmt.Println(s, t, i, a.n, m[\"k\"], u, q)\n")
	add("range reads the live array", "s := []int{1, 2, 3, 4}\nt := s[1:]\nsum := 0\nfor i, v := range s {\n\tif i == 0 {\n\t\ts[2] = 30\n\t\tt[2] = 40\n\t}\n\tsum += v\n}\nsieve := make([]bool, 12)\nprimes := 0\nfor i, c := range sieve {\n\tif i < 2 || c {\n\t\tcontinue\n\t}\n\tprimes++\n\tfor j := i * 2; j < len(sieve); j += i {\n\t\tsieve[j] = true\n\t}\n}\nfmt.Println(sum, primes)\n")
	add("nil on the left and in a case clause", "var s []int\nvar m map[string]int\nvar p *S\nvar f func() int\nvar e error\nfmt.Println(nil == s, nil == m, nil == p, nil == f, nil == e, nil != s, nil != p)\nfor i := 0; i < 2; i++ {\n\tswitch p {\n\tcase nil:\n\t\tfmt.Println(\"nil p\")\n\tdefault:\n\t\tfmt.Println(\"set p\", p.n)\n\t}\n\tswitch {\n\tcase nil == m:\n\t\tfmt.Println(\"nil m\")\n\tcase nil != m:\n\t\tfmt.Println(\"set m\", len(m))\n\t}\n\tp = &S{n: 4}\n\tm = map[string]int{}\n}\n")
	add("nil comparisons", "var s []int\nvar m map[string]int\nvar p *S\nvar f func() int\nvar e error\nfmt.Println(s == nil, m == nil, p == nil, f == nil, e == nil)\ns = []int{}\nm = map[string]int{}\np = &S{}\nfmt.Println(s == nil, m == nil, p == nil, s != nil, p != nil)\n")
	add("multi-assign and swap", "a, b, c := 1, \"s\", 2.5\na, d := 4, true\nx, y := 1, 2\nx, y = y, x\nq := []int{1, 2}\nq[0], q[1] = q[1], q[0]\nfmt.Println(a, b, c, d, x, y, q[0], q[1])\n")
	add("const and iota", "const a = 3\nconst (\n\tb = iota\n\tc\n\td = iota * 10\n\te\n)\nconst f, g = 1, \"s\"\nfmt.Println(a, b, c, d, e, f, g, a+c)\n")
	add("conversions", "x := 300\nb := byte(x)\nf := float64(x) / 7\ni := int(f)\ns := string(rune(65 + i%3))\nbs := []byte(\"hé\")\nt := string(bs[1:])\nu := uint32(x) * 20000000\nfmt.Println(b, i, s, len(bs), len(t), u, int8(x), float64(b)/8)\n")
	// sub-slices share the array and its capacity: appends through one show through the other until the capacity is used up
	for _, e := range elems {
		t := e.t
		add("sub-slice append aliasing, []"+t, fmt.Sprintf("s := []%s{%s, %s, %s, %s}\nt := s[0:1]\nt = append(t, %s)\nfmt.Println(s[1] == %s, len(t), len(s))\nu := s[1:3]\nu = append(u, %s)\nu = append(u, %s)\nu[0] = %s\nfmt.Println(s[3] == %s, s[1] == %s, len(u), len(s))\nw := s[2:]\nw = append(w, %s)\nw[0] = %s\nfmt.Println(s[2] == %s, len(w))\nv := s[:0]\nv = append(v, %s, %s)\nfmt.Println(s[0] == %s, s[1] == %s, len(v))\n",
			t, e.a, e.a, e.a, e.a, e.b, e.b, e.b, e.b, e.b, e.b, e.a, e.b, e.b, e.b, e.b, e.b, e.b, e.b))
	}
	add("copy between overlapping sub-slices", "s := []int{1, 2, 3, 4, 5}\nn := copy(s[1:], s[:3])\nfmt.Println(n, s)\nm := copy(s[:2], s[3:])\nfmt.Println(m, s)\nvar z []int\nfmt.Println(copy(z, s), copy(s, z), len(s[2:2]), len(s[5:]))\n")
	// shifts: counts at and beyond the operand width, negative operands, every width
	for _, t := range []string{"int32", "uint32", "int8", "uint8"} {
		for _, v := range []string{"1", "3", "-8", "100", "127"} {
			if strings.HasPrefix(t, "u") && strings.HasPrefix(v, "-") {
				continue
			}
			add("shifts of "+t+"("+v+") by counts up to 64", fmt.Sprintf("var a %s = %s\nfor _, n := range []uint32{0, 1, 6, 7, 8, 30, 31, 32, 33, 40, 63, 64} {\n\tfmt.Println(n, a<<n, a>>n)\n}\nvar k uint8 = 200\nfmt.Println(a<<k, a>>k)\n", t, v))
		}
	}
	return []*c1pkg{p}
}

// --- profile 5: stdlib shims ---------------------------------------------------------------------

func c1profile5() []*c1pkg {
	decls := "import (\n\t\"errors\"\n\t\"fmt\"\n\t\"math\"\n\t\"strconv\"\n\t\"strings\"\n)\n\nvar _ = errors.New\nvar _ = math.Pi\nvar _ = strconv.Itoa\nvar _ = strings.Repeat\n\n"
	decls += "var errNF = errors.New(\"nf\")\nvar errOther = errors.New(\"nf\")\n\nfunc find(k int) error {\n\tif k == 0 {\n\t\treturn nil\n\t}\n\tif k == 1 {\n\t\treturn errNF\n\t}\n\treturn errOther\n}\n\nfunc show(x int) { fmt.Println(\"show\", x) }\n\nfunc twice(x int) int { return 2 * x }\n\n"
	p := &c1pkg{name: "pe0000", decls: decls}
	add := func(key, body string) {
		p.snippets = append(p.snippets, c02indent(strings.TrimRight(body, "\n"), "\t"))
		p.keys = append(p.keys, key)
	}
	floats := []string{"0.0", "1.0", "-1.0", "0.5", "2.7", "-2.7", "1e9", "2.5", "-0.5", "100.0"}
	for _, fn := range []string{"Abs", "Atan", "Ceil", "Cos", "Floor", "Log", "Round", "Sin", "Sqrt", "Tan", "Signbit"} {
		for _, a := range floats {
			add("math."+fn+"("+a+")", fmt.Sprintf("x := %s\nfmt.Println(math.%s(x))\n", a, fn))
		}
	}
	for _, fn := range []string{"Atan2", "Hypot", "Max", "Min", "Mod", "Pow"} {
		for _, a := range floats[:7] {
			for _, b := range []string{"1.0", "-2.0", "0.5", "3.0", "0.0"} {
				add("math."+fn+"("+a+","+b+")", fmt.Sprintf("x, y := %s, %s\nfmt.Println(math.%s(x, y))\n", a, b, fn))
			}
		}
	}
	add("math.Pi", "fmt.Println(math.Pi, math.Pi/2 > 1.5)\n")
	strs := []string{`""`, `"a"`, `"a,b,,c"`, `" x "`, `"héllo"`, `"aXbXc"`, `"xx"`}
	for _, s := range strs {
		for _, t := range []string{`","`, `"X"`, `""`, `"x"`, `"é"`} {
			add("strings two-arg functions on "+s+","+t, fmt.Sprintf("s, t := %s, %s\nparts := strings.Split(s, t)\nfmt.Println(len(parts), parts)\nfmt.Println(strings.Join(parts, \"|\"))\nfmt.Println(strings.Contains(s, t), strings.TrimRight(s, t), strings.TrimSuffix(s, t), strings.ReplaceAll(s, t, \"-\"), strings.Replace(s, t, \"+\", 1), strings.Replace(s, t, \"+\", -1))\n", s, t))
		}
		add("strings one-arg functions on "+s, fmt.Sprintf("s := %s\nfmt.Println(strings.TrimSpace(s) + \"|\", strings.Repeat(s, 3), strings.Repeat(s, 0) == \"\")\n", s))
	}
	for _, n := range []string{"0", "1", "-1", "10", "16", "255", "-2147483648", "2147483647"} {
		add("strconv.Itoa/FormatInt "+n, fmt.Sprintf("n := %s\nfmt.Println(strconv.Itoa(n), strconv.FormatInt(int64(n), 10), strconv.FormatInt(int64(n), 16), strconv.FormatInt(int64(n), 2))\n", n))
	}
	for _, s := range []string{`"0"`, `"42"`, `"-7"`, `"1.5"`, `"x"`, `""`, `"1e3"`, `"0x1f"`, `" 1"`, `"2147483647"`} {
		add("strconv.ParseFloat/ParseInt "+s, fmt.Sprintf("s := %s\nf, err := strconv.ParseFloat(s, 64)\nfmt.Println(f, err == nil)\ni, err2 := strconv.ParseInt(s, 10, 32)\nfmt.Println(i, err2 == nil)\nj, err3 := strconv.ParseInt(s, 16, 32)\nfmt.Println(j, err3 == nil)\n", s))
	}
	for _, f := range []string{"0.0", "1.5", "-2.25", "1234.5678", "1e21", "0.000001"} {
		add("strconv.FormatFloat "+f, fmt.Sprintf("f := %s\nfmt.Println(strconv.FormatFloat(f, 'f', 2, 64), strconv.FormatFloat(f, 'f', -1, 64), strconv.FormatFloat(f, 'g', -1, 64), strconv.FormatFloat(f, 'e', 3, 64))\n", f))
	}
	for _, s := range []string{`"0.1"`, `"1.5"`, `"16777217"`, `"3.4e39"`, `"x"`} {
		add("strconv.ParseFloat at 32 bits "+s, fmt.Sprintf("s := %s\nf, err := strconv.ParseFloat(s, 32)\nfmt.Println(f, err == nil)\n", s))
	}
	for _, k := range []string{"0", "1", "2"} {
		add("error values compare by identity "+k, fmt.Sprintf("e := find(%s)\nfmt.Println(e == errNF, e != errNF, e == errOther, errOther == e, e == nil, e == e)\nswitch e {\ncase nil:\n\tfmt.Println(\"none\")\ncase errOther:\n\tfmt.Println(\"other\")\ncase errNF:\n\tfmt.Println(\"nf\")\ndefault:\n\tfmt.Println(\"unknown\")\n}\nf := e\nfmt.Println(f == e, errors.New(\"nf\") == errNF)\n", k))
	}
	add("a variable of a function type without results", "var op func(int) = show\nop(3)\nvar tw func(int) int = twice\nfmt.Println(tw(4))\n")
	add("a tuple assignment as a post statement", "n := 0\nfor i, j := 0, 5; i < j; i, j = i+1, j-1 {\n\tn += j - i\n}\nfmt.Println(n)\nfor i, j := 0, 9; i < j; i, j = i+2, j-twice(1) {\n\tn = n*10 + i + j\n}\nfmt.Println(n)\n")
	add("errors.New", "e := errors.New(\"bad thing\")\nfmt.Println(e.Error(), e != nil)\nvar n error\nfmt.Println(n == nil)\n")
	for _, v := range []string{"42", "\"s\"", "1.5", "true", "[]int{1, 2}", "map[string]int{\"k\": 1}", "byte(200)", "-0.5", "1e21", "\"\""} {
		add("fmt functions on "+v, fmt.Sprintf("v := %s\nfmt.Println(v)\nfmt.Print(v)\nfmt.Print(\"\\n\")\ns := fmt.Sprint(v)\nfmt.Println(len(s), s)\nfmt.Println(fmt.Sprintf(\"<%%v>\", v), fmt.Sprintf(\"%%v-%%v\", v, 7))\nfmt.Println(v, v, 1, \"x\")\n", v))
	}
	return []*c1pkg{p}
}

// --- profile 6: multi-package layouts -------------------------------------------------------------

func c1profile6() []*c1pkg {
	var pkgs []*c1pkg
	n := 0
	mk := func(mainSrc string, extra map[string]string, key string) {
		name := fmt.Sprintf("pm%04d", n)
		n++
		ex := map[string]string{}
		for k, v := range extra {
			ex[k] = strings.ReplaceAll(v, "ROOT", oracle.ModPrefix+"/"+name)
		}
		p := &c1pkg{name: name, single: true, keys: []string{key}, extra: ex}
		p.decls = strings.ReplaceAll(mainSrc, "ROOT", oracle.ModPrefix+"/"+name)
		p.snippets = nil
		pkgs = append(pkgs, p)
	}
	util := "package util\n\nconst Limit = 10\n\nvar Count = 1\n\ntype Box struct {\n\tV int\n}\n\nfunc (b *Box) Double() int {\n\treturn b.V * 2\n}\n\nfunc New(v int) *Box {\n\tCount++\n\treturn &Box{V: v}\n}\n\nfunc Add(a int, b int) int {\n\treturn a + b\n}\n"
	for _, alias := range []string{"", "u "} {
		ref := "util"
		if alias != "" {
			ref = "u"
		}
		mk("import (\n\t\"fmt\"\n\t"+alias+"\"ROOT/util\"\n)\n\nfunc Main() {\n\tb := "+ref+".New(4)\n\tc := &"+ref+".Box{V: 5}\n\tfmt.Println("+ref+".Limit, "+ref+".Count, b.Double(), c.Double(), "+ref+".Add(1, 2), b.V)\n\t"+ref+".Count += 10\n\tfmt.Println("+ref+".Count)\n}\n",
			map[string]string{"util/util.go": util}, "exported const/var/func/type/method, alias="+alias)
	}
	mk("import (\n\t\"fmt\"\n\t\"ROOT/temp\"\n)\n\nfunc Main() {\n\tvar i int32 = 7\n\tc := temp.Celsius(i)\n\ts := temp.Small(i + 250)\n\tx := temp.IDs([]int{1})\n\tx = append(x, 2)\n\tb := temp.Blue\n\tb += 254\n\tg := temp.Green\n\tfmt.Println(c/2, s, x, b, g-2, temp.Half/2)\n}\n",
		map[string]string{"temp/temp.go": "package temp\n\ntype Celsius float64\ntype Small uint8\ntype IDs []int\n\nconst (\n\tRed Small = iota\n\tGreen\n\tBlue\n)\n\nconst (\n\tZero float64 = iota\n\tHalf\n)\n"}, "named types and typed const groups of an imported package")
	// package split over 1-3 files
	mk("import (\n\t\"fmt\"\n\t\"ROOT/util\"\n)\n\nfunc Main() {\n\tfmt.Println(util.A(), util.B(), util.C, util.D)\n}\n",
		map[string]string{"util/a.go": "package util\n\nfunc A() int {\n\treturn B() + 1\n}\n", "util/b.go": "package util\n\nfunc B() int {\n\treturn C * 2\n}\n", "util/c.go": "package util\n\nconst C = 21\n\nvar D = A() + 1\n"}, "package split over three files")
	// chain and diamond
	mk("import (\n\t\"fmt\"\n\t\"ROOT/a\"\n)\n\nfunc Main() {\n\tfmt.Println(a.F())\n}\n",
		map[string]string{"a/a.go": "package a\n\nimport \"ROOT/b\"\n\nfunc F() int {\n\treturn b.G() + 1\n}\n", "b/b.go": "package b\n\nimport \"ROOT/c\"\n\nfunc G() int {\n\treturn c.V * 2\n}\n", "c/c.go": "package c\n\nvar V = 20\n"}, "dependency chain main->a->b->c")
	mk("import (\n\t\"fmt\"\n\t\"ROOT/a\"\n\t\"ROOT/b\"\n)\n\nfunc Main() {\n\tfmt.Println(a.F(), b.G(), a.F())\n}\n",
		map[string]string{"a/a.go": "package a\n\nimport \"ROOT/c\"\n\nfunc F() int {\n\treturn c.Next()\n}\n", "b/b.go": "package b\n\nimport \"ROOT/c\"\n\nfunc G() int {\n\treturn c.Next() * 10\n}\n", "c/c.go": "package c\n\nvar n = 0\n\nfunc Next() int {\n\tn++\n\treturn n\n}\n"}, "diamond main->a,b->c with shared state")
	mk("import (\n\t\"fmt\"\n\t\"ROOT/shape\"\n)\n\ntype tri struct {\n\tb int\n}\n\nfunc (t *tri) Area() int {\n\treturn t.b\n}\n\nfunc Main() {\n\txs := []shape.Shape{&shape.Sq{S: 3}, &tri{b: 4}}\n\tfmt.Println(shape.Total(xs))\n}\n",
		map[string]string{"shape/shape.go": "package shape\n\ntype Shape interface {\n\tArea() int\n}\n\ntype Sq struct {\n\tS int\n}\n\nfunc (q *Sq) Area() int {\n\treturn q.S * q.S\n}\n\nfunc Total(xs []Shape) int {\n\tt := 0\n\tfor _, x := range xs {\n\t\tt += x.Area()\n\t}\n\treturn t\n}\n"}, "interface across packages")
	return pkgs
}

// --- profile 8: order of evaluation ------------------------------------------------------------------
//
// Every operand that can observe or change state is a call that takes the next value of a shared counter, so the Go
// specification fixes the outcome (calls happen in lexical left-to-right order, operands of the targets before the
// right-hand side, stores left to right afterwards): target kinds x assignment operators x right-hand sides, and all
// pairs of target kinds in tuple assignments.
func c1profile8() []*c1pkg {
	decls := "import \"fmt\"\n\ntype S struct {\n\tn int\n\ta []int\n}\n\nfunc (s *S) Plus(k int) int {\n\treturn s.n*100 + k\n}\n\nvar cnt int\nvar gs []int\nvar gm map[int]int\nvar objs []*S\n\nfunc next() int {\n\tcnt++\n\treturn cnt\n}\n\nfunc obj() *S {\n\treturn objs[next()%4]\n}\n\nfunc sl() []int {\n\tnext()\n\treturn gs\n}\n\nfunc mp() map[int]int {\n\tnext()\n\treturn gm\n}\n\nfunc two() (int, int) {\n\treturn next(), next() * 10\n}\n\nfunc three() (int, int, int) {\n\treturn next(), next() * 10, next() * 100\n}\n\nfunc reset() {\n\tcnt = 0\n\tgs = []int{10, 20, 30, 40, 50, 60, 70, 80}\n\tgm = map[int]int{1: 100, 2: 200, 3: 300}\n\tobjs = []*S{&S{n: 1, a: []int{1, 2, 3, 4}}, &S{n: 2, a: []int{5, 6, 7, 8}}, &S{n: 3, a: []int{9, 10, 11, 12}}, &S{n: 4, a: []int{13, 14, 15, 16}}}\n}\n\nfunc dump(x int, y int) {\n\tfmt.Println(cnt, x, y, gs, len(gm))\n\tfor k := 1; k <= 14; k++ {\n\t\tif v, ok := gm[k]; ok {\n\t\t\tfmt.Println(k, v)\n\t\t}\n\t}\n\tfor _, o := range objs {\n\t\tfmt.Println(o.n, o.a)\n\t}\n}\n\n"
	targets := []string{"gs[next()%8]", "sl()[next()%8]", "gm[next()]", "mp()[next()]", "obj().n", "obj().a[next()%4]", "objs[next()%4].n", "x", "gs[next()%8+x]", "objs[x].a[next()%4]"}
	rhs := []string{"next()", "next() * next()", "obj().n + next()", "7", "obj().Plus(next())", "x + next()", "gs[next()%8] + gm[next()%3+1]"}
	ops := []string{"=", "+=", "-=", "*="}
	var pkgs []*c1pkg
	p := &c1pkg{name: "po0000", decls: decls}
	add := func(key, stmt string) {
		if len(p.snippets) == 120 {
			pkgs = append(pkgs, p)
			p = &c1pkg{name: fmt.Sprintf("po%04d", len(pkgs)), decls: decls}
		}
		p.snippets = append(p.snippets, c02indent("reset()\nx, y := 0, 0\n"+stmt+"\ndump(x, y)", "\t")+"\n")
		p.keys = append(p.keys, "order of evaluation: "+key)
	}
	for _, t := range targets {
		for _, op := range ops {
			for _, r := range rhs {
				add(t+" "+op+" "+r, t+" "+op+" "+r)
			}
		}
		add(t+"++", t+"++")
		add(t+"--", t+"--")
	}
	pairs := [][2]string{{"next()", "next()"}, {"obj().n + next()", "7"}, {"obj().Plus(next())", "next()"}, {"x + 1", "next() * 10"}}
	for _, ta := range targets {
		for _, tb := range targets {
			tb2 := tb // a second plain variable
			if tb == "x" {
				tb2 = "y"
			} else if strings.HasSuffix(tb, "+x]") {
				tb2 = strings.TrimSuffix(tb, "+x]") + "+y]"
			} else if strings.HasPrefix(tb, "objs[x]") {
				tb2 = "objs[y]" + strings.TrimPrefix(tb, "objs[x]")
			}
			for _, pr := range pairs {
				stmt := ta + ", " + tb2 + " = " + pr[0] + ", " + pr[1]
				add(stmt, stmt)
			}
		}
	}
	// results of one call spread over the targets, blank targets in every position
	for _, ta := range targets {
		for _, tb := range targets[:8] {
			tb2 := tb
			if tb == "x" {
				tb2 = "y"
			}
			for _, stmt := range []string{
				ta + ", " + tb2 + " = two()",
				ta + ", _ = two()",
				"_, " + ta + " = two()",
				ta + ", _, " + tb2 + " = three()",
				"_, " + ta + ", " + tb2 + " = three()",
				ta + ", " + tb2 + ", _ = three()",
				ta + ", _ = next(), next()",
				"_, " + ta + ", _ = next(), next(), obj().n",
			} {
				if tb != targets[0] && !strings.Contains(stmt, tb2) {
					continue // a statement without the second target: once is enough
				}
				add(stmt, stmt)
			}
		}
	}
	// method calls: receiver, then arguments left to right; nested
	for _, stmt := range []string{
		"y = obj().Plus(obj().Plus(next()))",
		"y = obj().Plus(obj().Plus(obj().Plus(next())))",
		"y = obj().Plus(obj().Plus(next()) + obj().Plus(next()))",
		"y = obj().Plus(obj().n) + obj().Plus(obj().n)",
		"gs[obj().Plus(next())%8] = obj().Plus(obj().Plus(next()))",
		"obj().a[obj().Plus(next())%4], y = obj().Plus(obj().Plus(next())), obj().Plus(next())",
	} {
		add(stmt, stmt)
	}
	for _, recv := range []string{"obj()", "objs[next()%4]", "objs[x+1]"} {
		for _, arg := range []string{"next()", "obj().n", "obj().Plus(next())", "gs[next()%8]"} {
			stmt := "y = " + recv + ".Plus(" + arg + ")"
			add(stmt, stmt)
			stmt = "gs[next()%8] += " + recv + ".Plus(" + arg + ")"
			add(stmt, stmt)
		}
	}
	pkgs = append(pkgs, p)
	return pkgs
}

// --- profile 7: run-time panics ---------------------------------------------------------------------

func c1profile7() []*c1pkg {
	faults := []struct{ name, setup, stmt string }{
		{"slice index out of range", "s := []int{1}\ni := 3\n", "fmt.Println(s[i])"},
		{"string index out of range", "s := \"ab\"\ni := 5\n", "fmt.Println(s[i])"},
		{"nil map write", "var m map[string]int\n", "m[\"k\"] = 1"},
		{"integer division by zero", "a, z := 4, 0\n", "fmt.Println(a / z)"},
		{"explicit panic", "", "panic(\"stop\")"},
		{"field access through nil struct reference", "var p *T\n", "fmt.Println(p.n)"},
		{"call of nil function value", "var f func() int\n", "fmt.Println(f())"},
		{"slice bounds out of range", "s := []int{1, 2}\nj := 5\n", "fmt.Println(len(s[1:j]))"},
	}
	positions := []struct{ name, pre, post string }{
		{"first statement", "", ""},
		{"after one print", "fmt.Println(\"one\")\n", ""},
		{"after two prints", "fmt.Println(\"one\")\nfmt.Println(2, \"two\")\n", ""},
		{"inside a callee", "fmt.Println(\"before\")\n", "CALLEE"},
		{"inside loop iteration 1", "for k := 0; k < 3; k++ {\n\tfmt.Println(\"it\", k)\n\tif k == 1 {\n", "\t}\n}\n"},
	}
	var pkgs []*c1pkg
	for fi, f := range faults {
		for pi, ps := range positions {
			name := fmt.Sprintf("pp%02d%02d", fi, pi)
			var body string
			decl := "import \"fmt\"\n\ntype T struct {\n\tn int\n}\n\n"
			switch {
			case ps.post == "CALLEE":
				decl += "func inner() {\n" + c02indent(strings.TrimRight(f.setup+f.stmt, "\n"), "\t") + "\tfmt.Println(\"unreachable\")\n}\n\n"
				body = ps.pre + "inner()\nfmt.Println(\"after\")\n"
			case strings.HasPrefix(ps.pre, "for"):
				body = f.setup + ps.pre + c02indent(f.stmt, "\t\t") + ps.post + "fmt.Println(\"after\")\n"
			default:
				body = ps.pre + f.setup + f.stmt + "\nfmt.Println(\"after\")\n"
			}
			p := &c1pkg{name: name, single: true, decls: decl + "func Main() {\n" + c02indent(strings.TrimRight(body, "\n"), "\t") + "}\n", keys: []string{f.name + ", " + ps.name}}
			pkgs = append(pkgs, p)
		}
	}
	return pkgs
}

// --- execution -----------------------------------------------------------------------------------------

type c1unit struct {
	pkg    string
	files  map[string]string // relative to the package root
	key    string
	goatFn func() (out string, failed bool) // goatlang side
}

func c1goatFiles(pkg string, files map[string]string) map[string]string {
	out := map[string]string{}
	for k, v := range files {
		out[pkg+"/"+k] = v
	}
	return out
}

func c01run(r *report.Run) {
	thorough := r.Tier == "thorough"
	r.Rule("profiles: (1) 8 lvalue kinds x 13 assignment operators x {int, byte, float64, string} x block contexts x right-hand-side kinds; (2) 58 statement forms x 8 block contexts x inner contexts (nesting depth 2); (3) element types x container shapes x operations, named types, nil comparisons, constants, conversions; (4) the C09 call configurations; (5) every bundled math/strings/strconv/errors/fmt function x boundary argument pools; (6) multi-package layouts (exported const/var/func/type/method, aliases, packages split over files, chain, diamond, interfaces across packages); (7) 8 run-time fault kinds x 5 positions; (8) order of evaluation: 10 target kinds x {=, +=, -=, *=, ++, --} x 7 right-hand sides, all pairs of target kinds x 4 value pairs in tuple assignments, the results of two- and three-valued calls spread over targets with blanks in every position, 3 receivers x 4 arguments of method calls - every operand a call on a shared counter, so that the specification fixes the outcome; (2) control-flow and scoping corpora of C06/C08 at <=3 nodes, slice histories of C11, struct programs of C12, wide-frame programs (statement groups behind 120..300 locals); every program compiled and run by the Go toolchain and by goatlang from identical source text; non-trivial = every program (all distinct)")
	r.Assume("the supported subset is the grammar of DESIGN.md §4; int values are kept inside the int32 range so that Go's 64-bit int and goatlang's 32-bit int agree", "one Go toolchain (the installed one); printed multi-entry maps never occur in generated programs")
	cache := oracle.OpenCache("c01")
	defer cache.Save()
	var pkgs []*c1pkg
	pkgs = append(pkgs, c1profile1(thorough)...)
	pkgs = append(pkgs, c1profile2(thorough)...)
	pkgs = append(pkgs, c1profile3()...)
	pkgs = append(pkgs, c1profile5()...)
	pkgs = append(pkgs, c1profile6()...)
	pkgs = append(pkgs, c1profile7()...)
	pkgs = append(pkgs, c1profile8()...)
	r.Set("snippet_packages", len(pkgs))
	// Go side
	var progs []*oracle.Prog
	for _, p := range pkgs {
		files := p.files()
		if p.single {
			files["main.go"] = "package " + p.name + "\n\n" + p.decls
		}
		progs = append(progs, &oracle.Prog{Pkg: p.name, Files: files, Entry: "Main"})
	}
	// reused corpora, whole-program comparison
	type whole struct {
		name  string
		files map[string]string
		entry string
	}
	var wholes []whole
	addCorpus := func(items []cItem) {
		for _, it := range items {
			if it.Dir == "" || len(it.Calls) == 0 {
				continue
			}
			files := map[string]string{}
			for k, v := range it.Files {
				files[strings.TrimPrefix(k, it.Dir+"/")] = v
			}
			wholes = append(wholes, whole{it.Dir, files, "Main"})
		}
	}
	addCorpus(corpusC06(3, 2))
	if thorough {
		addCorpus(corpusC08(4))
	} else {
		addCorpus(corpusC08(3))
	}
	addCorpus(corpusC11(2, 2))
	addCorpus(corpusC12(12))
	addCorpus(corpusWide(cWideWidths(thorough)))
	cfgs := c9configs(false)
	for s := 0; s < len(cfgs); s += c9perPkg * 8 { // every 8th package of the C09 enumeration
		e := s + c9perPkg
		if e > len(cfgs) {
			e = len(cfgs)
		}
		name := fmt.Sprintf("g%04d", s/c9perPkg)
		src, _ := c9package(name, cfgs[s:e], s)
		wholes = append(wholes, whole{name, map[string]string{"x.go": src}, "Main"})
	}
	for _, w := range wholes {
		progs = append(progs, &oracle.Prog{Pkg: w.name, Files: w.files, Entry: w.entry})
	}
	gres, err := cache.Run(progs)
	if err != nil {
		r.HarnessError("Go oracle: %v", err)
		return
	}
	validated := 0
	// snippet packages
	par.Do(len(pkgs), func(k int) {
		p := pkgs[k]
		gr := gres[k]
		if gr.BuildErr != "" {
			r.HarnessError("generated program rejected by the Go toolchain (%s): %s", p.name, gr.BuildErr)
			return
		}
		files := p.files()
		if p.single {
			files["main.go"] = "package " + p.name + "\n\n" + p.decls
		}
		// goatlang: import paths "o/<pkg>/util" are found by path shortening under <pkg>/util
		if p.single {
			res := goat.RunMain(c1goatFiles(p.name, files), p.name, p.name+".Main")
			r.Eval(1)
			r.Nontrivial(p.name)
			got := res.Out
			if gr.Out != got || gr.Panicked != res.Failed() {
				r.Fail(&report.Case{Kind: "program", Key: p.keys[0] + "\n" + files["main.go"], Files: c1goatFiles(p.name, files), Input: map[string]string{"dir": p.name, "entry": p.name + ".Main"},
					Want: fmt.Sprintf("go: panicked=%v stdout=%q", gr.Panicked, gr.Out), Got: fmt.Sprintf("goatlang: failed=%v stdout=%q %s", res.Failed(), got, firstLine(fmt.Sprint(res.Err)))})
			}
			return
		}
		if gr.Panicked {
			last := -1
			for _, l := range strings.Split(gr.Out, "\n") {
				if strings.HasPrefix(l, "#") {
					fmt.Sscanf(l, "#%d", &last)
				}
			}
			k := ""
			if last >= 0 && last < len(p.keys) {
				k = p.keys[last] + "\n" + p.snippets[last]
			}
			r.HarnessError("snippet #%d of %s panics under Go: %s", last, p.name, k)
			return
		}
		// split Go's output per snippet
		wantBy := map[int]string{}
		cur := -1
		for _, l := range strings.SplitAfter(gr.Out, "\n") {
			if strings.HasPrefix(l, "#") {
				fmt.Sscanf(l, "#%d", &cur)
				continue
			}
			wantBy[cur] += l
		}
		m := goat.New()
		defer m.Close()
		lr := m.Load(goat.FS(c1goatFiles(p.name, files)), p.name)
		if lr.Failed() {
			r.Fail(&report.Case{Kind: "load", Key: p.name, Files: c1goatFiles(p.name, files), Input: map[string]string{"dir": p.name, "entry": ""}, Want: "a package the Go toolchain compiles and runs loads", Got: lr.String()})
			return
		}
		for i := range p.snippets {
			res := m.Call(fmt.Sprintf("%s.S%d", p.name, i), 0)
			r.Eval(1)
			r.Nontrivial(p.name + p.keys[i])
			got := res.Out
			if res.Failed() {
				got += " [" + res.Status() + ": " + firstLine(fmt.Sprint(res.Err)) + "]"
			}
			r.Outcome(got)
			if got != wantBy[i] {
				r.Fail(&report.Case{Kind: "snippet", Key: p.keys[i] + "\nfunc S() {\n" + p.snippets[i] + "}", Files: c1goatFiles(p.name, files), Input: map[string]string{"dir": p.name, "entry": fmt.Sprintf("%s.S%d", p.name, i)}, Want: wantBy[i], Got: got})
			}
			if (k*131+i)%997 == 5 {
				r.Sample(map[string]any{"snippet": p.keys[i], "body": p.snippets[i], "go_and_goatlang_print": wantBy[i]})
			}
		}
	})
	// whole programs
	par.Do(len(wholes), func(k int) {
		w := wholes[k]
		gr := gres[len(pkgs)+k]
		if gr.BuildErr != "" {
			r.HarnessError("corpus program rejected by the Go toolchain (%s): %s", w.name, gr.BuildErr)
			return
		}
		res := goat.RunMain(c1goatFiles(w.name, w.files), w.name, w.name+"."+w.entry)
		r.Eval(1)
		r.Nontrivial(w.name)
		if gr.Out != res.Out || gr.Panicked != res.Failed() {
			r.Fail(&report.Case{Kind: "program", Key: w.name + ": " + c12diff(res.Out, gr.Out), Files: c1goatFiles(w.name, w.files), Input: map[string]string{"dir": w.name, "entry": w.name + "." + w.entry},
				Want: fmt.Sprintf("go: panicked=%v %s", gr.Panicked, c12diff(gr.Out, res.Out)), Got: fmt.Sprintf("goatlang: failed=%v %s %s", res.Failed(), c12diff(res.Out, gr.Out), firstLine(fmt.Sprint(res.Err)))})
		}
	})
	for range progs {
		validated++
	}
	r.Set("traces_validated_against_impl", validated)
	r.Set("programs", len(progs))
	r.Set("oracle_cache_hits", cache.Hits)
	r.Set("oracle_built", cache.Built)
}

func c01rerun(c *report.Case) (bool, string) {
	var in struct{ Dir, Entry string }
	if !remarshal(c.Input, &in) {
		return false, "bad input"
	}
	res := goat.RunMain(c.Files, in.Dir, in.Entry)
	got := res.Out
	switch c.Kind {
	case "load":
		return res.Failed(), res.String()
	case "snippet":
		if res.Failed() {
			got += " [" + res.Status() + ": " + firstLine(fmt.Sprint(res.Err)) + "]"
		}
		return got != c.Want, got
	}
	// program: Want holds Go's verdict as text; the case reproduces if goatlang still differs from it
	want := c.Want
	g := fmt.Sprintf("go: panicked=%v stdout=%q", res.Failed(), got)
	if strings.HasPrefix(want, "go: panicked=") && strings.Contains(want, "stdout=") {
		return g != want, g
	}
	return true, g
}

var _ = sort.Strings

func init() { register("C01", c01run, c01rerun) }
