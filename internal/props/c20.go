package props

import (
	"fmt"
	"strings"

	"github.com/philhassey/goatlang"

	"verif/internal/goat"
	"verif/internal/par"
	"verif/internal/report"
)

// C20 — run-time errors point at the failing line and the active call chain.
//
// Space: call chains as words over 8 frame kinds (all words of length <=3 (4),
// plus uniform chains of depth 4..30) x fault kinds x the statement shape that
// hosts the fault, compiled with the optimizer off and on.  Every function sits
// on known lines, one statement per line.  Oracle (by construction): line 1
// names the innermost function and the fault line; then one line per active
// call, innermost first, naming the calling function and the line of the call.

var c20kinds = []string{"call statement", "call inside an expression", "method call", "call from a for body", "call from an if branch", "call from a switch case", "call through a function-typed variable", "self-recursion x3 then call", "call after a function literal in the same function", "method call written over two lines (line break after the dot)", "spread call f(xs...) of a variadic function"}

type c20fault struct {
	name  string
	setup []string // statements before the faulting one
	expr  string   // int-valued faulting expression ("" for statement faults)
	stmt  string   // faulting statement (statement faults)
	off   int      // expr spanning several lines: offset of the line holding the failing operator (the line the Go toolchain reports)
}

var c20faults = []c20fault{
	{"slice index, constant (FASTGETINT)", []string{"s := []int{1}"}, "s[5]", "", 0},
	{"slice index, variable", []string{"s := []int{1}", "i := 5"}, "s[i]", "", 0},
	{"global slice index", nil, "gs[3]", "", 0},
	{"string index", []string{"str := \"ab\""}, "int(str[7])", "", 0},
	{"integer division by zero, two locals (LOCALDIV)", []string{"a, b := 1, 0"}, "a / b", "", 0},
	{"integer division by zero, global divisor (DIV)", []string{"a := 1"}, "a / gz", "", 0},
	{"modulo by zero", []string{"a := 1"}, "a % gz", "", 0},
	{"field of a nil struct reference", []string{"var t *T"}, "t.n", "", 0},
	{"call of a nil function value", []string{"var f func() int"}, "f()", "", 0},
	{"call of a nil function-typed global", nil, "gf()", "", 0},
	{"slice bounds", []string{"s := []int{1, 2}", "j := 5"}, "len(s[1:j])", "", 0},
	{"nil map write, local with constant key (FASTSET)", []string{"var m map[string]int"}, "", "m[\"k\"] = 1", 0},
	{"nil map write, global", nil, "", "gm[\"k\"] = 1", 0},
	{"explicit panic", nil, "", "panic(\"boom\")", 0},
	{"slice store out of range (FASTSETINT)", []string{"s := []int{1}"}, "", "s[4] = 1", 0},
	{"field store through nil reference", []string{"var t *T"}, "", "t.n = 1", 0},
	// expressions spanning several lines: the reported line is the failing operator's, as the Go toolchain reports it
	{"division, line break after the operator", []string{"a, b := 1, 0"}, "(a + 1) /\n\t\t(b * 2)", "", 0},
	{"index, line break inside the brackets", []string{"s := []int{1}", "i := 5"}, "s[i+\n\t\t4]", "", 0},
	{"index on the middle line of three", []string{"s := []int{1}", "i := 5", "a := 1"}, "a +\n\t\ts[i] +\n\t\t1", "", 1},
	{"division on the second line of three", []string{"a, b := 1, 0"}, "(a +\n\t\t1) / (b *\n\t\t2)", "", 1},
	{"modulo by a global, line break after the operator", []string{"a := 1"}, "a %\n\t\tgz", "", 0},
	// stores written over two lines: the failing line is where the target starts (as the Go toolchain reports)
	{"slice store, line break inside the brackets", []string{"s := []int{1}"}, "", "s[\n\t\t4] = 1", 0},
	{"nil map store, line break inside the brackets", []string{"var m map[string]int"}, "", "m[\n\t\t\"k\"] = 1", 0},
	{"field store through nil reference, line break after the dot", []string{"var t *T"}, "", "t.\n\t\tn = 1", 0},
	{"slice element +=, line break inside the brackets", []string{"s := []int{1}", "i := 3"}, "", "s[\n\t\ti] += 1", 0},
	// the same through the hidden slots of the ordered paths: a call on the right, a tuple, a receiver that is a call
	{"field += a call through nil reference, line break after the dot", []string{"var t *T"}, "", "t.\n\t\tn += id(1)", 0},
	{"tuple store, first target through nil reference, line break after the dot", []string{"var t *T", "u := &T{}"}, "", "t.\n\t\tn, u.n = 1, 2", 0},
	{"field store through a nil call result, line break after the dot", nil, "", "nilT().\n\t\tn = 1", 0},
	{"field ++ through a nil call result, line break after the dot", nil, "", "nilT().\n\t\tn++", 0},
	{"slice element += a call, line break inside the brackets", []string{"s := []int{1}", "i := 3"}, "", "s[\n\t\ti] += id(1)", 0},
}

var c20hosts = []string{"x := %E", "x = %E", "x += %E", "if %E > 0 {", "for %E > 0 {", "return %E", "x = id(%E)", "after fusable statements", "x = 1 +\n\t\t%E"}

type c20prog struct {
	Word  []int `json:"word"`
	Fault int   `json:"fault"`
	Host  int   `json:"host"`
	Rep   int   `json:"rep,omitempty"`  // uniform chain: Word holds one kind, repeated Rep times
	Pad   int   `json:"pad,omitempty"`  // number of unrelated functions declared before the chain (name indexes and line numbers beyond 8 bits)
	Lit   bool  `json:"lit,omitempty"`  // a function literal precedes the fault in the innermost function
	Deep  bool  `json:"deep,omitempty"` // the package lives at import path lib/c (directory path differs from the package name)
	Long  bool  `json:"long,omitempty"` // every line that must be reported starts with a 70000-byte comment (columns beyond 16 bits)
}

func (p c20prog) word() []int {
	if p.Rep == 0 {
		return p.Word
	}
	w := make([]int, p.Rep)
	for i := range w {
		w[i] = p.Word[0]
	}
	return w
}

type c20frame struct {
	fn   string
	line int
}

// c20render builds the program and the expected (function, line) sequence.
func c20render(p c20prog) (src string, entry string, want []c20frame) {
	word := p.word()
	var b strings.Builder
	line := 0
	emit := func(s string) int {
		for _, l := range strings.Split(s, "\n") {
			b.WriteString(l + "\n")
			line++
		}
		return line
	}
	emit("package c")
	emit("")
	emit("type T struct {")
	emit("\tn int")
	emit("}")
	emit("")
	emit("var gs = []int{1}")
	emit("var gm map[string]int")
	emit("var gz = 0")
	emit("var gf func() int")
	emit("")
	emit("func nilT() *T {")
	emit("\treturn nil")
	emit("}")
	emit("")
	emit("func id(a int) int {")
	emit("\treturn a")
	emit("}")
	emit("")
	for k := 0; k < p.Pad; k++ {
		emit(fmt.Sprintf("func pad%d(a int) int {", k))
		emit("\treturn a")
		emit("}")
		emit("")
	}
	n := len(word)
	// function i (0..n): i < n calls i+1 using frame kind word[i]; function n holds the fault.
	// how function i is declared depends on how it is called: word[i-1]
	name := func(i int) string {
		if i > 0 && (word[i-1] == 2 || word[i-1] == 9) {
			return fmt.Sprintf("M%d", i)
		}
		return fmt.Sprintf("F%d", i)
	}
	qual := func(i int) string {
		if i > 0 && (word[i-1] == 2 || word[i-1] == 9) {
			return "c.T." + name(i)
		}
		return "c." + name(i)
	}
	callLines := make([]int, n)  // line of the call i -> i+1
	recLines := make([]int, n+1) // line of the recursive self call in function i (if called via kind 7)
	faultLine := 0
	for i := 0; i <= n; i++ {
		rec := i > 0 && word[i-1] == 7
		switch {
		case i > 0 && (word[i-1] == 2 || word[i-1] == 9):
			emit(fmt.Sprintf("func (t *T) %s() int {", name(i)))
		case i > 0 && word[i-1] == 10:
			emit(fmt.Sprintf("func %s(vs ...int) int {", name(i)))
		case rec:
			emit(fmt.Sprintf("func %s(n int) int {", name(i)))
			emit("\tif n > 0 {")
			recLines[i] = emit(fmt.Sprintf("\t\treturn %s(n - 1)", name(i)))
			emit("\t}")
		default:
			emit(fmt.Sprintf("func %s() int {", name(i)))
		}
		emit("\tx := 0")
		if i < n {
			callee := name(i+1) + "()"
			if word[i] == 7 {
				callee = name(i+1) + "(3)"
			}
			switch word[i] {
			case 0, 7:
				if word[i] == 7 {
					callLines[i] = emit("\tx = " + callee)
				} else {
					callLines[i] = emit("\t" + callee)
				}
			case 1:
				callLines[i] = emit("\tx = 1 + " + callee + "*2")
			case 2:
				emit("\tt := &T{n: 1}")
				callLines[i] = emit("\tx = t." + callee)
			case 3:
				emit("\tfor i := 0; i < 2; i++ {")
				callLines[i] = emit("\t\tx += " + callee)
				emit("\t}")
			case 4:
				emit("\tif gz == 0 {")
				callLines[i] = emit("\t\tx = " + callee)
				emit("\t}")
			case 5:
				emit("\tswitch gz {")
				emit("\tcase 0:")
				callLines[i] = emit("\t\tx = " + callee)
				emit("\tdefault:")
				emit("\t\tx = 2")
				emit("\t}")
			case 6:
				emit("\tf := " + name(i+1))
				callLines[i] = emit("\tx = f()")
			case 10:
				emit("\txs := []int{1, 2}")
				callLines[i] = emit("\tx = " + name(i+1) + "(xs...)")
			case 9:
				emit("\tt := &T{n: 1}")
				emit("\tx = t.")
				callLines[i] = emit("\t\t" + callee) // the call is where its parenthesis is
			case 8:
				emit("\tg := func(a int) int {")
				emit("\t\treturn a + 1")
				emit("\t}")
				emit("\tx = g(x)")
				callLines[i] = emit("\tx += " + callee)
			}
			emit("\treturn x")
		} else {
			f := c20faults[p.Fault]
			if p.Lit {
				emit("\tlit := func(a int) int {")
				emit("\t\treturn a * 2")
				emit("\t}")
				emit("\tx = lit(x)")
			}
			for _, s := range f.setup {
				emit("\t" + s)
			}
			if f.expr == "" {
				faultLine = emit("\t"+f.stmt) - strings.Count(f.stmt, "\n") + f.off
				emit("\treturn x")
			} else {
				h := c20hosts[p.Host]
				switch {
				case h == "after fusable statements":
					emit("\ty := 2")
					emit("\ty++")
					emit("\tz := y + y")
					emit("\tx = z - y")
					faultLine = emit("\tx = " + f.expr)
					emit("\treturn x + y")
				case strings.HasPrefix(h, "x = 1 +"):
					emit("\tx = 1 +")
					faultLine = emit("\t\t" + f.expr)
					emit("\treturn x")
				case strings.HasSuffix(h, "{"):
					faultLine = emit("\t" + strings.ReplaceAll(h, "%E", f.expr))
					emit("\t\tx = 1")
					emit("\t}")
					emit("\treturn x")
				case strings.HasPrefix(h, "return"):
					faultLine = emit("\t" + strings.ReplaceAll(h, "%E", f.expr))
				case strings.HasPrefix(h, "x :="):
					faultLine = emit("\tv := " + f.expr)
					emit("\treturn v + x")
				default:
					faultLine = emit("\t" + strings.ReplaceAll(h, "%E", f.expr))
					emit("\treturn x")
				}
				faultLine += c20adjust(f, h)
			}
		}
		emit("}")
		emit("")
	}
	// expectation, innermost first
	want = append(want, c20frame{qual(n), faultLine})
	for i := n; i >= 1; i-- {
		if word[i-1] == 7 {
			for k := 0; k < 3; k++ {
				want = append(want, c20frame{qual(i), recLines[i]})
			}
		}
		want = append(want, c20frame{qual(i - 1), callLines[i-1]})
	}
	src = b.String()
	if p.Long {
		lines := strings.Split(src, "\n")
		pad := "/*" + strings.Repeat("c", 70000) + "*/"
		done := map[int]bool{}
		for _, f := range want {
			if f.line >= 1 && f.line <= len(lines) && !done[f.line] {
				done[f.line] = true
				lines[f.line-1] = pad + lines[f.line-1]
			}
		}
		src = strings.Join(lines, "\n")
	}
	return src, "c." + name(0), want
}

// c20adjust: emit returns the last line of the text it wrote; for an expression spanning several lines the expected line
// is the one of the failing operator.  Hosts that write a statement AFTER the expression before returning the line
// do so in a separate emit, so only the expression's own line breaks count.
func c20adjust(f c20fault, host string) int {
	return f.off - strings.Count(f.expr, "\n")
}

// c20shape parses the error text into (function, line) pairs.
func c20shape(err error) []c20frame {
	var out []c20frame
	for _, l := range strings.Split(err.Error(), "\n") {
		m := cPosRe.FindStringSubmatch(l)
		if m == nil {
			out = append(out, c20frame{"?" + l, 0})
			continue
		}
		fn := strings.TrimSuffix(strings.TrimSpace(m[1]), "(...)")
		ln := 0
		fmt.Sscan(m[3], &ln)
		out = append(out, c20frame{fn, ln})
	}
	return out
}

func c20fmt(fs []c20frame) string {
	var p []string
	for _, f := range fs {
		p = append(p, fmt.Sprintf("%s:%d", f.fn, f.line))
	}
	return strings.Join(p, " <- ")
}

func c20exec(p c20prog, optimize bool) (got string, want string, src string) {
	src, entry, w := c20render(p)
	want = c20fmt(w)
	m := goat.New()
	defer m.Close()
	files, dir := map[string]string{"c/c.go": src}, "c"
	if p.Deep {
		// function names in positions use the package-clause name (c.F0), globals the import path (lib/c.F0)
		files, dir = map[string]string{"lib/c/c.go": src}, "lib/c"
		entry = "lib/" + entry
	}
	lr := m.Load(goat.FS(files), dir)
	if lr.Failed() {
		return "LOAD FAILED " + lr.String(), want, src
	}
	res := m.Call(entry, 1)
	switch {
	case res.HostPanic != nil:
		return fmt.Sprintf("HOST PANIC %v", res.HostPanic), want, src
	case res.Err == nil:
		return "no error", want, src
	}
	return c20fmt(c20shape(res.Err)), want, src
}

func c20progs(thorough bool) []c20prog {
	var out []c20prog
	maxLen := 3
	if thorough {
		maxLen = 4
	}
	var words [][]int
	var rec func(cur []int)
	rec = func(cur []int) {
		words = append(words, append([]int{}, cur...))
		if len(cur) == maxLen {
			return
		}
		for k := range c20kinds {
			rec(append(cur, k))
		}
	}
	rec(nil)
	for _, w := range words {
		for fi, f := range c20faults {
			if f.expr == "" {
				out = append(out, c20prog{Word: w, Fault: fi})
				continue
			}
			for hi := range c20hosts {
				if len(w) == maxLen && maxLen > 2 && hi > 2 && (fi+hi+len(w))%3 != 0 && !thorough {
					continue // longest words: every fault kind with 3 hosts + a rotating third of the others (complete in thorough)
				}
				out = append(out, c20prog{Word: w, Fault: fi, Host: hi})
			}
		}
	}
	// padded programs (400 unrelated functions first) and a function literal before the fault: all words of length <=2
	for _, w := range words {
		if len(w) > 2 {
			continue
		}
		for fi, f := range c20faults {
			hi := 0
			if f.expr != "" {
				hi = (fi + len(w)) % len(c20hosts)
			}
			out = append(out, c20prog{Word: w, Fault: fi, Host: hi, Pad: 400}, c20prog{Word: w, Fault: fi, Host: hi, Lit: true}, c20prog{Word: w, Fault: fi, Host: hi, Pad: 300, Lit: true}, c20prog{Word: w, Fault: fi, Host: hi, Deep: true})
		}
	}
	// reported lines that start with a 70000-byte comment: the column does not fit 16 bits, the line must still be right
	for _, w := range words {
		if len(w) > 1 {
			continue
		}
		for _, fi := range []int{0, 4, 13, 16} {
			out = append(out, c20prog{Word: w, Fault: fi, Host: 0, Long: true})
		}
	}
	// a fault beyond source line 65535 (positions carry 16 bits per field)
	out = append(out, c20prog{Word: []int{0}, Fault: 4, Host: 0, Pad: 16500}, c20prog{Word: []int{}, Fault: 13, Pad: 16500})
	// uniform chains of every depth 4..30
	for k := range c20kinds {
		for d := 4; d <= 30; d++ {
			for _, fi := range []int{0, 4, 8, 13} {
				out = append(out, c20prog{Word: []int{k}, Rep: d, Fault: fi, Host: (d + k) % len(c20hosts)})
			}
		}
	}
	return out
}

func c20run(r *report.Run) {
	thorough := r.Tier == "thorough"
	progs := c20progs(thorough)
	r.Rule(fmt.Sprintf("call chains = all words of length <=%d over 9 frame kinds (statement, expression, method, for body, if branch, switch case, function-typed variable, 3-fold self recursion, after a function literal) plus uniform chains of depth 4..30, x 16 fault kinds x 9 statement shapes hosting the fault, plus variants with 300-400 unrelated functions declared first (name indexes and line numbers beyond 8 bits) and with a function literal before the fault, x optimizer off/on; non-trivial = chain with at least one frame", map[bool]int{false: 3, true: 4}[thorough]))
	r.Assume("expected (function, line) sequence known by construction; opcode names and columns in the text are not compared", "VM.Call's synthetic frame has no position and is rightly absent")
	r.Set("programs", len(progs))
	results := make([][2]string, len(progs))
	wants := make([]string, len(progs))
	for mode := 0; mode < 2; mode++ {
		goatlang.VerifSetOptimize(mode == 1)
		par.DoChunk(len(progs), 32, func(i int) {
			if r.Expired() {
				return
			}
			got, want, _ := c20exec(progs[i], mode == 1)
			results[i][mode] = got
			wants[i] = want
		})
	}
	goatlang.VerifSetOptimize(true)
	for i, p := range progs {
		if results[i][0] == "" && results[i][1] == "" {
			continue
		}
		r.Eval(2)
		if len(p.word()) > 0 {
			r.Nontrivial(fmt.Sprint(p))
		}
		for mode := 0; mode < 2; mode++ {
			if results[i][mode] != wants[i] {
				_, _, src := c20exec(p, mode == 1)
				var ks []string
				for _, k := range p.word() {
					ks = append(ks, c20kinds[k])
				}
				if p.Pad > 0 {
					src = fmt.Sprintf("(%d unrelated functions of 4 lines each declared first; literal=%v)", p.Pad, p.Lit)
				}
				if p.Long {
					src = "(every reported line starts with a 70000-byte comment)"
				}
				r.Fail(&report.Case{Kind: "trace", Key: fmt.Sprintf("chain [%s]; fault: %s; host: %s; optimizer=%v\n%s", strings.Join(ks, " -> "), c20faults[p.Fault].name, c20hosts[p.Host], mode == 1, src), Input: map[string]any{"prog": p, "optimize": mode == 1}, Want: wants[i], Got: results[i][mode]})
				break
			}
		}
		if i%2003 == 5 {
			r.Sample(map[string]any{"program": p, "expected_innermost_first": wants[i], "goatlang_optimizer_on": results[i][1]})
		}
		r.Outcome(results[i][1])
	}
	if r.Expired() {
		r.NotExhaustive("internal deadline reached")
	}
}

func c20rerun(c *report.Case) (bool, string) {
	var in struct {
		Prog     c20prog `json:"prog"`
		Optimize bool    `json:"optimize"`
	}
	if !remarshal(c.Input, &in) {
		return false, "bad input"
	}
	goatlang.VerifSetOptimize(in.Optimize)
	defer goatlang.VerifSetOptimize(true)
	got, want, _ := c20exec(in.Prog, in.Optimize)
	return got != want, got
}

func init() { register("C20", c20run, c20rerun) }
