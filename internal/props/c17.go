package props

import (
	"fmt"
	"strings"
	"testing/fstest"

	"github.com/philhassey/goatlang"

	"verif/internal/goat"
	"verif/internal/par"
	"verif/internal/report"
)

// C17 — reloading swaps code in place and keeps state.
//
// Unmerged exhaustive DFS over all histories of <=5 (6) events from an
// 11-event alphabet: Load(v0|v1|v2), Call(Main|Capture|UseCaptured|Bump) and
// Call(Yielding) during which the replaced builtin.__yield reloads nothing or
// one of the three versions (reload into a RUNNING VM).  Reference: "last
// version loaded + retained variables".

func c17source(v int) string {
	// bodies that differ between the versions only in operands of fused instructions
	step := []string{"i++", "i--", "i += 2"}[v]
	field := []string{"X", "Y", "Z"}[v]
	sum := []string{"a + b", "a + c", "a + a"}[v] // the left operand stays: only operand B of LOCALADD differs
	// bodies whose local declarations change their kind: a local type in one version, a function value or a plain
	// variable of the same name in the next; a local struct type whose fields change
	local := []string{"type cel float64\n\tx := cel(3)\n\treturn int(x / 2 * 10)", "cel := func(x int) int {\n\t\treturn x * 10\n\t}\n\treturn cel(3)/2 + 100", "cel := 4\n\tcel += 2\n\treturn cel + 1 + 200"}[v]
	recField := []string{"a", "bb", "ccc"}[v]
	return fmt.Sprintf(`package live

import (
	"fmt"
	"time"

	"lib/util"
)

type T struct {
	n int
	f func() string
}

type Namer interface {
	M() string
}

var keep int
var reinit = 10
var anyv any
var named Namer
var capF func() string
var inst *T
var bound func() string
var holder *T
var boundV func(...int) string
var capFV func(...int) string
var captured bool
var zeroed int = 0
var capD func() int
var capG func() string
var box *util.Box
var boundB func() string

type T2 struct {
	X int
	Y int
	Z int
}

func Delta() int {
	i := 10
	%[2]s
	xs := []int{5, 6, 7}
	t := &T2{X: 1, Y: 2, Z: 3}
	a, b, c := 1, 2, 3
	return i*1000 + xs[%[1]d]*100 + t.%[3]s*10 + (%[4]s)
}

func Local() int {
	%[5]s
}

func Local2() int {
	type rec struct {
		%[6]s int
	}
	r := &rec{%[6]s: 1}
	return len(fmt.Sprint(r))
}

func F() string {
	return "F%[1]d"
}

func (t *T) M() string {
	return "M%[1]d"
}

func (t *T) V(xs ...int) string {
	return "V%[1]d/" + fmt.Sprint(len(xs))
}

func FV(xs ...int) string {
	return "FV%[1]d/" + fmt.Sprint(len(xs))
}

func Shadow() int {
	keep := 5
	keep++
	keep += 2
	reinit := keep
	reinit--
	return keep*10 + reinit
}

func helper() string {
	return F() + "-" + (&T{}).M()
}

func Main() {
	fmt.Println(F(), (&T{}).M(), helper(), Shadow(), util.Greet(), Delta(), zeroed, Local(), Local2())
	keep++
	fmt.Println(keep, reinit, anyv, named == nil)
	reinit++
}

func Capture() {
	capF = F
	inst = &T{n: %[1]d}
	bound = inst.M
	holder = &T{f: F}
	boundV = inst.V
	capFV = FV
	capG = util.Greet
	capD = Delta
	box = &util.Box{}
	boundB = box.Name
	captured = true
}

func UseCaptured() {
	if !captured {
		fmt.Println("nocap")
		return
	}
	fmt.Println(capF(), inst.M(), bound(), holder.f(), boundV(1, 2), capFV(3), inst.V())
	fmt.Println(capG(), util.Greet(), box.Name(), boundB(), capD())
}

func Bump() {
	keep++
	reinit++
	zeroed += 5
	anyv = keep
	named = &T{n: keep}
}

func Yielding() {
	fmt.Println(F())
	time.Sleep(0)
	fmt.Println(F(), helper())
	if captured {
		fmt.Println(capF(), bound())
	}
}
`, v, step, field, sum, local, recField)
}

// the imported package lives at an import path that differs from its package name
func c17util(v int) string {
	return fmt.Sprintf("package util\n\ntype Box struct {\n\tn int\n}\n\nfunc Greet() string {\n\treturn \"G%[1]d\"\n}\n\nfunc (b *Box) Name() string {\n\treturn \"B%[1]d\"\n}\n", v)
}

var c17events = []string{"Load(v0)", "Load(v1)", "Load(v2)", "Main", "Capture", "UseCaptured", "Bump", "Yielding", "Yielding+reload(v0)", "Yielding+reload(v1)", "Yielding+reload(v2)"}

var c17delta = []int{11*1000 + 5*100 + 1*10 + 3, 9*1000 + 6*100 + 2*10 + 4, 12*1000 + 7*100 + 3*10 + 2}

type c17ref struct {
	ver, keep, reinit int
	zeroed            int
	captured          bool
	anyv              string // printed form of the any-typed variable
	namedSet          bool
}

// step returns the expected stdout of the event.
func (s *c17ref) step(ev int) string {
	tag := func() string { return fmt.Sprintf("F%d", s.ver) }
	mt := func() string { return fmt.Sprintf("M%d", s.ver) }
	switch {
	case ev <= 2:
		s.ver = ev
		s.reinit = 10
		s.zeroed = 0
		return ""
	case ev == 3:
		out := fmt.Sprintf("%s %s %s-%s 87 G%d %d %d %d %d\n", tag(), mt(), tag(), mt(), s.ver, c17delta[s.ver], s.zeroed, []int{15, 115, 207}[s.ver], 6+s.ver)
		s.keep++
		if s.anyv == "" {
			s.anyv = "nil"
		}
		out += fmt.Sprintf("%d %d %s %v\n", s.keep, s.reinit, s.anyv, !s.namedSet)
		s.reinit++
		return out
	case ev == 4:
		s.captured = true
		return ""
	case ev == 5:
		if !s.captured {
			return "nocap\n"
		}
		return fmt.Sprintf("%s %s %s %s V%d/2 FV%d/1 V%d/0\nG%d G%d B%d B%d %d\n", tag(), mt(), mt(), tag(), s.ver, s.ver, s.ver, s.ver, s.ver, s.ver, s.ver, c17delta[s.ver])
	case ev == 6:
		s.keep++
		s.reinit++
		s.zeroed += 5
		s.anyv = fmt.Sprint(s.keep)
		s.namedSet = true
		return ""
	default:
		out := tag() + "\n"
		if ev >= 8 {
			s.ver = ev - 8
			s.reinit = 10
			s.zeroed = 0
		}
		out += fmt.Sprintf("%s %s-%s\n", tag(), tag(), mt())
		if s.captured {
			out += fmt.Sprintf("%s %s\n", tag(), mt())
		}
		return out
	}
}

var c17fs = func() [3]fstest.MapFS {
	var a [3]fstest.MapFS
	for v := 0; v < 3; v++ {
		a[v] = goat.FS(map[string]string{"live/live.go": c17source(v), "lib/util/util.go": c17util(v)})
	}
	return a
}()

// c17exec runs a history on a fresh VM; returns the per-event outputs (or an error marker).
func c17exec(hist []int) []string {
	m := goat.New()
	defer m.Close()
	reload := -1
	m.VM.Set("builtin.__yield", goatlang.NewFunc(0, 0, func(v *goatlang.VM) {
		if reload >= 0 {
			if err := m.VM.Load(c17fs[reload], "live"); err != nil {
				panic(fmt.Sprintf("reload failed: %v", err))
			}
		}
	}))
	var outs []string
	if r := m.Load(c17fs[0], "live"); r.Failed() {
		return []string{"INITIAL LOAD FAILED " + r.String()}
	}
	for _, ev := range hist {
		var r goat.Result
		reload = -1
		switch {
		case ev <= 2:
			r = m.Load(c17fs[ev], "live")
		case ev >= 7:
			if ev >= 8 {
				reload = ev - 8
			}
			r = m.Call("live.Yielding", 0)
		default:
			r = m.Call("live."+c17events[ev], 0)
		}
		if r.Failed() {
			outs = append(outs, "FAILED "+r.Status()+" "+firstLine(fmt.Sprint(r.Err))+" "+r.Out)
			return outs
		}
		outs = append(outs, r.Out)
	}
	return outs
}

func c17histString(h []int) string {
	var p []string
	for _, e := range h {
		p = append(p, c17events[e])
	}
	return "Load(v0) " + strings.Join(p, " ")
}

func c17check(h []int) (want, got []string, ok bool) {
	ref := &c17ref{reinit: 10}
	for _, e := range h {
		want = append(want, ref.step(e))
	}
	got = c17exec(h)
	ok = len(got) == len(want)
	for i := 0; ok && i < len(want); i++ {
		ok = want[i] == got[i]
	}
	return
}

func c17run(r *report.Run) {
	depth := 5
	if r.Tier == "thorough" {
		depth = 6
	}
	r.Rule(fmt.Sprintf("all histories of length <= %d over 11 events (3 loads, Main, Capture, UseCaptured, Bump, Yielding x {no reload, reload v0/v1/v2 from inside the running call}) starting from a freshly loaded v0, each replayed on a fresh VM; non-trivial = history with a capture, a later load of a different version and a later use of the captured values", depth))
	r.Assume("reference: every call made after a load prints the tag of the last loaded version (by name, captured function value, struct field, bound method, function value and bound method of an imported package whose import path differs from its name, and later in the function that was running during the reload); keep never reset; reinit = 10 and zeroed (declared `int = 0`) = 0 after each load; a function whose versions differ only in operands of fused instructions (i++ / i-- / i += 2, xs[0] / xs[1] / xs[2], t.X / t.Y / t.Z, a+b / a+c / a+a) is called directly and through a captured value", "state contains unbounded counters, so no state merging is attempted")
	n := len(c17events)
	total := 0
	for d := 1; d <= depth; d++ {
		cnt := 1
		for i := 0; i < d; i++ {
			cnt *= n
		}
		par.DoChunk(cnt, 128, func(k int) {
			if r.Expired() {
				return
			}
			h := make([]int, d)
			x := k
			for i := d - 1; i >= 0; i-- {
				h[i] = x % n
				x /= n
			}
			want, got, ok := c17check(h)
			r.Eval(1)
			if c17nontrivial(h) {
				r.Nontrivial(fmt.Sprint(h))
			}
			r.Outcome(strings.Join(got, "|"))
			if !ok {
				r.Fail(&report.Case{Kind: "history", Key: c17histString(h), Input: h, Want: strings.Join(want, "|"), Got: strings.Join(got, "|")})
			}
			if d == depth && k%(cnt/5+1) == cnt/11 {
				r.Sample(map[string]any{"history": c17histString(h), "expected_output_per_event": want, "goatlang_output_per_event": got})
			}
		})
		total += cnt
	}
	r.Set("states", total)
	r.Set("transitions", total)
	r.Set("traces_validated_against_impl", total)
	if r.Expired() {
		r.NotExhaustive("internal deadline reached")
	}
}

func c17nontrivial(h []int) bool {
	ver, capAt, capVer, changed := 0, -1, 0, false
	for i, e := range h {
		switch {
		case e <= 2:
			ver = e
		case e >= 8:
			// the use inside Yielding after the reload counts as a later use
			if capAt >= 0 && e-8 != capVer {
				return true
			}
			ver = e - 8
		case e == 4:
			capAt, capVer, changed = i, ver, false
		case e == 5 || e == 7:
			if capAt >= 0 && changed {
				return true
			}
		}
		if capAt >= 0 && ver != capVer {
			changed = true
		}
	}
	return false
}

func c17rerun(c *report.Case) (bool, string) {
	var h []int
	if !remarshal(c.Input, &h) {
		return false, "bad input"
	}
	_, got, ok := c17check(h)
	return !ok, strings.Join(got, "|")
}

func init() { register("C17", c17run, c17rerun) }
