package props

import (
	"fmt"
	"strings"

	"verif/internal/goat"
	"verif/internal/oracle"
	"verif/internal/par"
	"verif/internal/report"
)

// C08 — names resolve by Go's lexical block scoping.
//
// Space: ALL programs over the names {x, y} (package-level x=1000, y=2000)
// with <= N statement nodes built from declarations (:=, var with and without
// initialiser, typed uint8, the x, y := redeclaration form), assignment, ++,
// reads, and every block-forming construct (if with/without init and else,
// 3-clause for with the variable in the clause, a two-iteration loop, range
// with one or two variables, tagless switch with default), Go-valid by
// construction.  Oracle: an environment-chain interpreter, validated against
// the Go toolchain on the complete <=4-node layer; plus fixed templates for
// parameters shadowing globals and a local shadowing an imported package.

type c8kind int

const (
	c8declX  c8kind = iota // x := K
	c8declY                // y := K
	c8varX                 // var x int = K
	c8zeroX                // var x int
	c8byteX                // var x uint8 = 250
	c8redecl               // x, y := K, K2
	c8asgX                 // x = K
	c8asgY                 // y = K
	c8incX                 // x++
	c8useX                 // trace(int(x))
	c8useY                 // trace(int(y))
	c8constX               // const x = K (afterwards x cannot be assigned in this scope and the scopes nested in it)
	c8halfX                // trace(int(x / 2 * 2)): tells an integer x from a float64 x
	c8leafEnd
	c8if       // if int(x) > 500 {A}
	c8ifElse   // if int(x) > 500 {A} else {B}
	c8ifInit   // if x := K; x > 0 {A}
	c8ifInitEl // if x := K; x < 0 {A} else {B}
	c8forX     // for x := 0; x < 2; x++ {A}
	c8for2     // for i := 0; i < 2; i++ {A}
	c8rangeX   // for _, x := range two {A}
	c8rangeXY  // for x, y := range two {A}
	c8switch   // switch { case int(y) > 1500: A default: B }
	c8rangeFX  // for _, x := range twof {A}   (x is a float64)
	c8forFX    // for x := 0.0; x < 2; x++ {A}  (x is a float64)
)

type c8stmt struct {
	kind   c8kind
	blocks [][]*c8stmt
	size   int
}

// context bits: which of x, y are declared in the CURRENT innermost scope (redeclaration rules)
func c8leafOK(k c8kind, ctx int) (ok bool, nctx int) {
	xHere, yHere, xByte, xConst := ctx&1 != 0, ctx&2 != 0, ctx&4 != 0, ctx&8 != 0
	switch k {
	case c8declX, c8varX, c8zeroX:
		return !xHere, ctx&^8 | 1
	case c8byteX:
		return !xHere, ctx&^8 | 5
	case c8constX:
		return !xHere, ctx | 9
	case c8declY:
		return !yHere, ctx | 2
	case c8redecl:
		// (a uint8 x of this scope cannot take the constant: not valid Go; nor can a constant x of this scope be assigned)
		return !(xHere && yHere) && !xByte && !(xHere && xConst), ctx&^8 | 3
	case c8asgX, c8incX:
		return !xConst, ctx
	}
	return true, ctx
}

type c8gen struct {
	memo map[string][]*c8stmt
}

// stmts of exactly `size` nodes valid in scope-context ctx; each comes with the context after it.
type c8sc struct {
	s    *c8stmt
	nctx int
}

func (g *c8gen) stmts(size, ctx, depth int) []c8sc {
	var out []c8sc
	if size == 1 {
		for k := c8declX; k < c8leafEnd; k++ {
			if ok, n := c8leafOK(k, ctx); ok {
				out = append(out, c8sc{&c8stmt{kind: k, size: 1}, n})
			}
		}
		return out
	}
	if depth == 0 {
		return nil
	}
	rest := size - 1
	inner := func(k c8kind) int { // context at the start of a nested block: nothing declared here; x stays a constant unless the clause declares it
		switch k {
		case c8ifInit, c8ifInitEl, c8forX, c8rangeX, c8rangeXY, c8rangeFX, c8forFX:
			return 0
		}
		return ctx & 8
	}
	one := func(k c8kind) {
		for _, b := range g.blocks(rest, inner(k), depth-1) {
			out = append(out, c8sc{&c8stmt{kind: k, blocks: [][]*c8stmt{b}, size: size}, ctx})
		}
	}
	two := func(k c8kind) {
		for a := 1; a < rest; a++ {
			for _, b1 := range g.blocks(a, inner(k), depth-1) {
				for _, b2 := range g.blocks(rest-a, inner(k), depth-1) {
					out = append(out, c8sc{&c8stmt{kind: k, blocks: [][]*c8stmt{b1, b2}, size: size}, ctx})
				}
			}
		}
	}
	one(c8if)
	two(c8ifElse)
	one(c8ifInit)
	two(c8ifInitEl)
	one(c8forX)
	one(c8for2)
	one(c8rangeX)
	one(c8rangeXY)
	two(c8switch)
	one(c8rangeFX)
	one(c8forFX)
	return out
}

// blocks of 1..2 statements totalling `size` nodes, starting in context ctx
func (g *c8gen) blocks(size, ctx, depth int) [][]*c8stmt {
	var out [][]*c8stmt
	for _, s := range g.stmtsMemo(size, ctx, depth) {
		out = append(out, []*c8stmt{s.s})
	}
	for a := 1; a < size; a++ {
		for _, s1 := range g.stmtsMemo(a, ctx, depth) {
			for _, s2 := range g.stmtsMemo(size-a, s1.nctx, depth) {
				out = append(out, []*c8stmt{s1.s, s2.s})
			}
		}
	}
	return out
}

var c8memo2 = map[string][]c8sc{}

func (g *c8gen) stmtsMemo(size, ctx, depth int) []c8sc {
	k := fmt.Sprintf("%d/%d/%d", size, ctx, depth)
	if v, ok := c8memo2[k]; ok {
		return v
	}
	v := g.stmts(size, ctx, depth)
	c8memo2[k] = v
	return v
}

// rendering ---------------------------------------------------------------------

type c8render struct {
	b strings.Builder
	k int
}

func (w *c8render) nextK() int { w.k++; return 300 + w.k }

func (w *c8render) block(bl []*c8stmt, ind string) {
	for _, s := range bl {
		w.stmt(s, ind)
	}
}

func (w *c8render) stmt(s *c8stmt, ind string) {
	in := ind + "\t"
	p := func(f string, a ...any) { fmt.Fprintf(&w.b, ind+f+"\n", a...) }
	switch s.kind {
	case c8declX:
		p("x := %d", w.nextK())
		p("_ = x")
	case c8declY:
		p("y := %d", w.nextK())
		p("_ = y")
	case c8varX:
		p("var x int = %d", w.nextK())
		p("_ = x")
	case c8zeroX:
		p("var x int")
		p("_ = x")
	case c8byteX:
		p("var x uint8 = 250")
		p("_ = x")
	case c8redecl:
		a := w.nextK()
		p("x, y := %d, %d", a, w.nextK())
		p("_, _ = x, y")
	case c8asgX:
		p("x = %d", w.nextK()%100)
	case c8asgY:
		p("y = %d", w.nextK()%100)
	case c8incX:
		p("x++")
	case c8constX:
		p("const x = %d", w.nextK())
		p("_ = x")
	case c8halfX:
		p("trace(int(x / 2 * 2))")
	case c8useX:
		p("trace(int(x))")
	case c8useY:
		p("trace(int(y))")
	case c8if:
		p("if int(x) > 500 {")
		w.block(s.blocks[0], in)
		p("}")
	case c8ifElse:
		p("if int(x) > 500 {")
		w.block(s.blocks[0], in)
		p("} else {")
		w.block(s.blocks[1], in)
		p("}")
	case c8ifInit:
		p("if x := %d; x > 0 {", w.nextK())
		w.block(s.blocks[0], in)
		p("}")
	case c8ifInitEl:
		p("if x := %d; x < 0 {", w.nextK())
		w.block(s.blocks[0], in)
		p("} else {")
		w.block(s.blocks[1], in)
		p("}")
	case c8forX:
		p("for x := 0; x < 2; x++ {")
		w.block(s.blocks[0], in)
		p("}")
	case c8for2:
		p("for i := 0; i < 2; i++ {")
		w.block(s.blocks[0], in)
		p("}")
	case c8rangeX:
		p("for _, x := range two {")
		fmt.Fprintf(&w.b, in+"_ = x\n")
		w.block(s.blocks[0], in)
		p("}")
	case c8rangeXY:
		p("for x, y := range two {")
		fmt.Fprintf(&w.b, in+"_, _ = x, y\n")
		w.block(s.blocks[0], in)
		p("}")
	case c8rangeFX:
		p("for _, x := range twof {")
		fmt.Fprintf(&w.b, in+"_ = x\n")
		w.block(s.blocks[0], in)
		p("}")
	case c8forFX:
		p("for x := 0.0; x < 2; x++ {")
		w.block(s.blocks[0], in)
		p("}")
	case c8switch:
		p("switch {")
		p("case int(y) > 1500:")
		w.block(s.blocks[0], in)
		p("default:")
		w.block(s.blocks[1], in)
		p("}")
	}
}

func c8body(prog []*c8stmt) string {
	w := &c8render{}
	w.block(prog, "\t")
	return w.b.String()
}

// reference: environment chain -----------------------------------------------------

type c8var struct {
	v     int
	byte  bool
	float bool // a float64 holding an integral value
}

type c8env struct {
	vars   map[string]*c8var
	parent *c8env
}

func (e *c8env) lookup(n string) *c8var {
	for s := e; s != nil; s = s.parent {
		if v, ok := s.vars[n]; ok {
			return v
		}
	}
	panic("c8: unbound " + n)
}

func (e *c8env) child() *c8env { return &c8env{vars: map[string]*c8var{}, parent: e} }

type c8interp struct {
	k   int
	out []int
}

func (it *c8interp) nextK() int { it.k++; return 300 + it.k }

func (v *c8var) set(x int) {
	if v.byte {
		x &= 0xff
	}
	v.v = x
}

// the interpreter must consume K's in rendering order: K's are assigned at render time by traversal
// order, so the interpreter pre-assigns them by a structural pass identical to the renderer's.
type c8k struct{ ks map[*c8stmt][]int }

func (it *c8interp) block(bl []*c8stmt, base int, e *c8env) {
	for _, s := range bl {
		it.stmt(s, base, e)
		base += c8ks(s)
	}
}

// c8ks: number of K constants the rendering of s consumes
func c8ks(s *c8stmt) int {
	n := 0
	switch s.kind {
	case c8declX, c8declY, c8varX, c8asgX, c8asgY, c8ifInit, c8ifInitEl, c8constX:
		n = 1
	case c8redecl:
		n = 2
	}
	for _, b := range s.blocks {
		for _, c := range b {
			n += c8ks(c)
		}
	}
	return n
}

func c8ksBlock(b []*c8stmt) int {
	n := 0
	for _, c := range b {
		n += c8ks(c)
	}
	return n
}

func (it *c8interp) stmt(s *c8stmt, base int, e *c8env) {
	K := func(i int) int { return 300 + base + i + 1 }
	switch s.kind {
	case c8declX, c8varX, c8constX:
		e.vars["x"] = &c8var{v: K(0)}
	case c8declY:
		e.vars["y"] = &c8var{v: K(0)}
	case c8zeroX:
		e.vars["x"] = &c8var{}
	case c8byteX:
		e.vars["x"] = &c8var{v: 250, byte: true}
	case c8redecl:
		// := with at least one new variable: existing ones IN THIS SCOPE are assigned, others declared
		if v, ok := e.vars["x"]; ok {
			v.set(K(0))
		} else {
			e.vars["x"] = &c8var{v: K(0)}
		}
		if v, ok := e.vars["y"]; ok {
			v.set(K(1))
		} else {
			e.vars["y"] = &c8var{v: K(1)}
		}
	case c8asgX:
		e.lookup("x").set(K(0) % 100)
	case c8asgY:
		e.lookup("y").set(K(0) % 100)
	case c8incX:
		v := e.lookup("x")
		v.set(v.v + 1)
	case c8halfX:
		v := e.lookup("x")
		if v.float {
			it.out = append(it.out, v.v)
		} else {
			it.out = append(it.out, v.v/2*2)
		}
	case c8useX:
		it.out = append(it.out, e.lookup("x").v)
	case c8useY:
		it.out = append(it.out, e.lookup("y").v)
	case c8if:
		if e.lookup("x").v > 500 {
			it.block(s.blocks[0], base, e.child())
		}
	case c8ifElse:
		if e.lookup("x").v > 500 {
			it.block(s.blocks[0], base, e.child())
		} else {
			it.block(s.blocks[1], base+c8ksBlock(s.blocks[0]), e.child())
		}
	case c8ifInit:
		sc := e.child()
		sc.vars["x"] = &c8var{v: K(0)}
		it.block(s.blocks[0], base+1, sc.child())
	case c8ifInitEl:
		sc := e.child()
		sc.vars["x"] = &c8var{v: K(0)}
		// x < 0 is false: else branch
		it.block(s.blocks[1], base+1+c8ksBlock(s.blocks[0]), sc.child())
	case c8forX:
		sc := e.child()
		x := &c8var{}
		sc.vars["x"] = x
		for n := 0; x.v < 2 && n < 10; n++ {
			it.block(s.blocks[0], base, sc.child())
			x.set(x.v + 1)
		}
	case c8for2:
		sc := e.child()
		for i := 0; i < 2; i++ {
			it.block(s.blocks[0], base, sc.child())
		}
	case c8rangeX:
		for _, val := range []int{10, 20} {
			sc := e.child()
			sc.vars["x"] = &c8var{v: val}
			it.block(s.blocks[0], base, sc.child())
		}
	case c8rangeXY:
		for idx, val := range []int{10, 20} {
			sc := e.child()
			sc.vars["x"] = &c8var{v: idx}
			sc.vars["y"] = &c8var{v: val}
			it.block(s.blocks[0], base, sc.child())
		}
	case c8rangeFX:
		for _, val := range []int{10, 20} {
			sc := e.child()
			sc.vars["x"] = &c8var{v: val, float: true}
			it.block(s.blocks[0], base, sc.child())
		}
	case c8forFX:
		sc := e.child()
		x := &c8var{float: true}
		sc.vars["x"] = x
		for n := 0; x.v < 2 && n < 10; n++ {
			it.block(s.blocks[0], base, sc.child())
			x.set(x.v + 1)
		}
	case c8switch:
		if e.lookup("y").v > 1500 {
			it.block(s.blocks[0], base, e.child())
		} else {
			it.block(s.blocks[1], base+c8ksBlock(s.blocks[0]), e.child())
		}
	}
}

func c8ref(prog []*c8stmt) string {
	glob := &c8env{vars: map[string]*c8var{"x": {v: 1000}, "y": {v: 2000}}}
	it := &c8interp{}
	it.block(prog, 0, glob.child())
	// the final values of the package-level variables are observed too
	it.out = append(it.out, glob.vars["x"].v, glob.vars["y"].v)
	return fmt.Sprint(it.out)
}

// packaging ------------------------------------------------------------------------

func c8pkgSource(pkg string, bodies []string) string {
	var b strings.Builder
	b.WriteString("package " + pkg + "\n\nimport \"fmt\"\n\nvar x = 1000\nvar y = 2000\nvar out []int\nvar two = []int{10, 20}\nvar twof = []float64{10, 20}\n\n")
	b.WriteString("func trace(k int) {\n\tout = append(out, k)\n}\n\nfunc Reset() {\n\tx = 1000\n\ty = 2000\n\tout = []int{}\n}\n\nfunc Out() string {\n\tout = append(out, x, y)\n\treturn fmt.Sprint(out)\n}\n\n")
	for i, body := range bodies {
		fmt.Fprintf(&b, "func F%d() {\n%s}\n\n", i, body)
	}
	b.WriteString("func Main() {\n")
	for i := range bodies {
		fmt.Fprintf(&b, "\tReset()\n\tF%d()\n\tfmt.Println(Out())\n", i)
	}
	b.WriteString("}\n")
	return b.String()
}

func c8goat(pkg, src string, nf int) []string {
	res := make([]string, nf)
	m := goat.New()
	defer m.Close()
	m.Ctx.MaxSteps = 100_000
	lr := m.Load(goat.FS(map[string]string{pkg + "/" + pkg + ".go": src}), pkg)
	if lr.Failed() {
		for i := range res {
			res[i] = "LOAD " + lr.String()
		}
		return res
	}
	for i := 0; i < nf; i++ {
		m.Call(pkg+".Reset", 0)
		r := m.Call(fmt.Sprintf("%s.F%d", pkg, i), 0)
		if r.Failed() {
			res[i] = "ERROR " + r.Status() + " " + firstLine(fmt.Sprint(r.Err)) + fmt.Sprint(r.HostPanic)
			continue
		}
		o := m.Call(pkg+".Out", 1)
		if o.Failed() || len(o.Rets) != 1 {
			res[i] = "ERROR reading Out: " + o.String()
			continue
		}
		res[i] = o.Rets[0].String()
	}
	return res
}

// fixed templates: parameters shadowing globals, a local shadowing an imported package name
type c8tpl struct {
	src, want string
	extra     map[string]string // further packages, path below the program's root -> source; ROOT in an import path stands for that root
}

func c8templates() []c8tpl {
	hdr := "package t\n\nimport (\n\t\"fmt\"\n\t\"strings\"\n)\n\nvar x = 1000\nvar y = 2000\n\n"
	var out []c8tpl
	add := func(decls, body, want string) {
		out = append(out, c8tpl{src: hdr + decls + "func Main() {\n" + body + "\tfmt.Println(strings.Repeat(\"-\", 2), x, y)\n}\n", want: want})
	}
	// a local, a parameter or a constant named like an imported package, and a local named like one of its variables
	util := map[string]string{"util/util.go": "package util\n\nvar Count = 7\n\nvar Other = 1\n\nfunc Get() int {\n\treturn Count\n}\n"}
	hdr2 := "package t\n\nimport (\n\t\"fmt\"\n\n\t\"ROOT/util\"\n)\n\ntype T struct {\n\tCount int\n\tOther int\n}\n\n"
	add2 := func(decls, body, want string) {
		out = append(out, c8tpl{src: hdr2 + decls + "func Main() {\n" + body + "}\n", want: want, extra: util})
	}
	add2("func set(util *T) int {\n\tutil.Count = 5\n\treturn util.Count\n}\n\nfunc bump() int {\n\tutil := &T{Count: 1}\n\tutil.Count += 10\n\tutil.Count++\n\treturn util.Count\n}\n\n",
		"\tfmt.Println(set(&T{Count: 1}), bump(), util.Get(), util.Count)\n\tutil.Count = 3\n\tutil.Count++\n\tutil.Other += 2\n\tfmt.Println(util.Get(), util.Other)\n", "5 12 7 7\n4 3\n")
	add2("func f() int {\n\tCount := 1\n\tutil.Count = 9\n\tCount++\n\tutil.Count++\n\tOther := 5\n\tutil.Other += Other\n\treturn Count*100 + util.Count\n}\n\n",
		"\tfmt.Println(f(), util.Get(), util.Other)\n", "210 10 6\n")
	add2("func g(Count int) int {\n\tif Count > 0 {\n\t\tutil := &T{Other: Count}\n\t\tutil.Other = util.Other * 2\n\t\tCount = util.Other\n\t}\n\tutil.Other = Count + 1\n\treturn util.Other\n}\n\n",
		"\ta := g(4)\n\tb := util.Other\n\tc := g(-1)\n\td := util.Other\n\tfmt.Println(a, b, c, d, util.Count)\n", "9 9 0 0 7\n")
	// locals and parameters named like builtins shadow them, in value and in call position, until their block ends
	add("func g(append func(int) int, copy int) int {\n\treturn append(copy) + len(\"ab\")\n}\n\nfunc h() int {\n\tn := len(\"abc\")\n\tif n > 0 {\n\t\tlen := func(s string) int {\n\t\t\treturn 42\n\t\t}\n\t\tn += len(\"abc\")\n\t}\n\treturn n*100 + len(\"abcd\")\n}\n\n", "\tfmt.Println(g(func(a int) int {\n\t\treturn a * 2\n\t}, 4), h())\n", "10 4504\n-- 1000 2000\n")
	// constants: a local constant shadows a variable of an enclosing scope until its block ends
	add("func f(flag bool) int {\n\tlimit := 10\n\ttotal := 0\n\tif flag {\n\t\tconst limit = 3\n\t\ttotal += limit\n\t}\n\tfor i := 0; i < 2; i++ {\n\t\tconst limit = 100\n\t\ttotal += limit\n\t}\n\treturn total*1000 + limit\n}\n\n", "\tfmt.Println(f(true), f(false))\n", "203010 200010\n-- 1000 2000\n")
	add("const c = 5\n\nfunc f(c int) int {\n\treturn c + 1\n}\n\nfunc g() int {\n\tconst x = 2\n\tif c > 0 {\n\t\tconst y = x * 3\n\t\treturn y + x\n\t}\n\treturn x\n}\n\n", "\tc := c * 2\n\tfmt.Println(c, f(1), g(), x, y)\n", "10 2 8 1000 2000\n-- 1000 2000\n")
	add("func f(x int) int {\n\tx = x + 1\n\treturn x\n}\n\n", "\tfmt.Println(f(5), x)\n", "6 1000\n-- 1000 2000\n")
	add("func f(x int, y int) int {\n\tx++\n\ty += x\n\treturn y\n}\n\n", "\tfmt.Println(f(1, 2), x, y)\n", "4 1000 2000\n-- 1000 2000\n")
	add("func f(y int) int {\n\tx = y\n\treturn x + y\n}\n\n", "\tfmt.Println(f(7), x)\n", "14 7\n-- 7 2000\n")
	add("func f(x int) int {\n\tif x > 0 {\n\t\tx := x * 2\n\t\treturn x\n\t}\n\treturn x\n}\n\n", "\tfmt.Println(f(3), f(-3), x)\n", "6 -3 1000\n-- 1000 2000\n")
	add("", "\tfmt.Println(strings.Repeat(\"a\", 2))\n\tif x > 0 {\n\t\tstrings := 5\n\t\tfmt.Println(strings + 1)\n\t}\n\tfmt.Println(strings.Repeat(\"b\", 3))\n", "aa\n6\nbbb\n-- 1000 2000\n")
	add("", "\tfor i := 0; i < 2; i++ {\n\t\tstrings := i\n\t\tfmt.Println(strings)\n\t}\n\tfmt.Println(strings.Contains(\"xyz\", \"y\"))\n", "0\n1\ntrue\n-- 1000 2000\n")
	add("func f(strings int) int {\n\treturn strings * 2\n}\n\n", "\tfmt.Println(f(4), strings.Repeat(\"c\", 1))\n", "8 c\n-- 1000 2000\n")
	add("func sum(p []int) int {\n\tt := 0\n\tfor _, p := range p {\n\t\tt += p\n\t}\n\treturn t + len(p)\n}\n\n", "\txs := []int{3, 4}\n\tfor _, xs := range xs {\n\t\tfmt.Println(xs + 1)\n\t}\n\tfmt.Println(len(xs), sum(xs))\n\ti := 1\n\trows := [][]int{{9}, {7, 8}}\n\tfor i := range rows[i] {\n\t\tfmt.Println(i)\n\t}\n\tfmt.Println(i)\n\tm := map[string]int{\"k\": 1}\n\tfor m, v := range m {\n\t\tfmt.Println(m, v)\n\t}\n\tfmt.Println(len(m))\n",
		"4\n5\n2 9\n0\n1\n1\nk 1\n1\n-- 1000 2000\n")
	add("", "\tswitch x {\ncase 1000:\n\t\tx = 5\n\tdefault:\n\t\tx := 7\n\t\ty = x\n\t}\n\tfmt.Println(x, y)\n\tswitch y {\n\tdefault:\n\t\ty := 1\n\t\tx += y\n\tcase 2000:\n\t\ty += 3\n\t}\n\tfmt.Println(x, y)\n", "5 2000\n5 2003\n-- 5 2003\n")
	add("type T struct {\n\tx int\n}\n\nfunc (t *T) Get(y int) int {\n\tx := t.x + y\n\treturn x\n}\n\n", "\tt := &T{x: 5}\n\tfmt.Println(t.Get(1), x, y)\n", "6 1000 2000\n-- 1000 2000\n")
	return out
}

type c8replay struct {
	Body string `json:"body"`
}

func c8run(r *report.Run) {
	maxN, depth := 5, 3
	if r.Tier == "thorough" {
		maxN = 6
	}
	r.Rule(fmt.Sprintf("all Go-valid programs over {x, y} with <=%d statement nodes, nesting <=%d, blocks of 1-2 statements: 13 leaf forms (x := K, y := K, var x int = K, var x int, var x uint8 = 250, const x = K, x, y := K, K', x = K, y = K, x++, read x, read y, read x/2*2) and 11 block-forming constructs (two of them declare a float64 x in their clause); every K distinct; the trace of values read plus the final package-level x, y is compared; non-trivial = program in which a name is declared in a nested scope and x or y is read or written after that scope closed", maxN, depth))
	r.Assume("environment-chain interpreter is the reference, validated against the Go toolchain on the complete <=4-node layer in every run and on all templates", "bare blocks, closures, labels and goto are outside the supported subset")
	g := &c8gen{}
	cache := oracle.OpenCache("c08")
	defer cache.Save()
	type item struct{ body, want string }
	var goProgs []*oracle.Prog
	var goItems [][]item
	type batch struct {
		pkg, src string
		items    []item
	}
	var batches []batch
	pkgN := 0
	flush := func(items []item, withGo bool) {
		if len(items) == 0 {
			return
		}
		pkg := fmt.Sprintf("q%05d", pkgN)
		pkgN++
		bodies := make([]string, len(items))
		for i, it := range items {
			bodies[i] = it.body
		}
		src := c8pkgSource(pkg, bodies)
		if withGo {
			goProgs = append(goProgs, &oracle.Prog{Pkg: pkg, Files: map[string]string{pkg + ".go": src}, Entry: "Main"})
			goItems = append(goItems, items)
		}
		batches = append(batches, batch{pkg, src, items})
	}
	exec := func() {
		par.Do(len(batches), func(k int) {
			if r.Violations() > 200 {
				return // enough: a change that breaks scoping at large makes every failing program slow (error paths)
			}
			b := batches[k]
			got := c8goat(b.pkg, b.src, len(b.items))
			if len(b.items) > 1 && strings.HasPrefix(got[0], "LOAD ") {
				// one program the front end rejects takes the whole package with it: find out which by loading each on its own
				for i, it := range b.items {
					got[i] = c8goat(b.pkg, c8pkgSource(b.pkg, []string{it.body}), 1)[0]
				}
			}
			for i, it := range b.items {
				r.Eval(1)
				r.Outcome(got[i])
				if strings.Contains(it.body, "\t}\n") { // has a nested scope
					r.Nontrivial(it.body)
				}
				if got[i] != it.want {
					r.Fail(&report.Case{Kind: "program", Key: it.body, Input: c8replay{it.body}, Want: it.want, Got: got[i]})
				}
			}
			if k%53 == 7 && len(b.items) > 2 {
				it := b.items[len(b.items)/2]
				r.Sample(map[string]any{"program_body": it.body, "reference_trace_then_final_x_y": it.want})
			}
		})
		batches = batches[:0]
	}
	total := 0
	for size := 1; size <= maxN; size++ {
		if r.Violations() > 200 {
			r.NotExhaustive("stopped early: more than 200 violations")
			break
		}
		if r.Expired() {
			r.NotExhaustive(fmt.Sprintf("internal deadline reached before layer %d", size))
			break
		}
		var cur []item
		n := 0
		// the top layer is streamed (blocks of 1..2 statements of total size `size`), never materialised
		emit := func(prog []*c8stmt) {
			cur = append(cur, item{c8body(prog), c8ref(prog)})
			n++
			if len(cur) == 400 {
				flush(cur, size <= 4)
				cur = nil
				if len(batches) >= 256 {
					exec()
				}
			}
		}
		for _, s1 := range g.stmtsMemo(size, 0, depth) {
			emit([]*c8stmt{s1.s})
		}
		for a := 1; a < size && !r.Expired(); a++ {
			for _, s1 := range g.stmtsMemo(a, 0, depth) {
				for _, s2 := range g.stmtsMemo(size-a, s1.nctx, depth) {
					emit([]*c8stmt{s1.s, s2.s})
				}
			}
		}
		flush(cur, size <= 4)
		exec()
		total += n
		r.Set(fmt.Sprintf("programs_with_%d_nodes", size), n)
	}
	// templates
	tpls := c8templates()
	for i, tc := range tpls {
		pkg := fmt.Sprintf("t%03d", i)
		root := oracle.ModPrefix + "/" + pkg
		src := strings.ReplaceAll(tc.src, "ROOT", root)
		gfiles := map[string]string{"t/t.go": src}
		ofiles := map[string]string{"t.go": strings.Replace(src, "package t\n", "package "+pkg+"\n", 1)}
		for k, v := range tc.extra {
			gfiles[k] = v
			ofiles[k] = v
		}
		res := goat.RunMain(gfiles, "t", "t.Main")
		r.Eval(1)
		r.Nontrivial(tc.src)
		got := res.Out
		if res.Failed() {
			got = res.String()
		}
		if got != tc.want {
			r.Fail(&report.Case{Kind: "template", Key: tc.src, Files: gfiles, Want: tc.want, Got: got})
		}
		goProgs = append(goProgs, &oracle.Prog{Pkg: pkg, Files: ofiles, Entry: "Main"})
		goItems = append(goItems, []item{{tc.src, tc.want}})
	}
	// reference vs Go toolchain
	validated := 0
	gres, err := cache.Run(goProgs)
	if err != nil {
		r.HarnessError("Go oracle: %v", err)
	} else {
		for k, gr := range gres {
			if gr.BuildErr != "" {
				r.HarnessError("generated program rejected by the Go toolchain: %s", gr.BuildErr)
				continue
			}
			if strings.HasPrefix(goProgs[k].Pkg, "t") {
				if gr.Out != goItems[k][0].want {
					r.HarnessError("template expectation disagrees with the Go toolchain:\n%s\nGo: %q want %q", goItems[k][0].body, gr.Out, goItems[k][0].want)
				} else {
					validated++
				}
				continue
			}
			lines := strings.Split(strings.TrimRight(gr.Out, "\n"), "\n")
			if len(lines) != len(goItems[k]) || gr.Panicked {
				r.HarnessError("Go oracle output of %s has %d lines for %d programs", goProgs[k].Pkg, len(lines), len(goItems[k]))
				continue
			}
			for i, it := range goItems[k] {
				validated++
				if lines[i] != it.want {
					r.HarnessError("reference interpreter disagrees with the Go toolchain on:\n%s\nGo: %s  reference: %s", it.body, lines[i], it.want)
				}
			}
		}
	}
	r.Set("traces_validated_against_impl", validated)
	r.Set("programs_enumerated", total)
}

func c8rerun(c *report.Case) (bool, string) {
	if c.Kind == "template" {
		res := goat.RunMain(c.Files, "t", "t.Main")
		got := res.Out
		if res.Failed() {
			got = res.String()
		}
		return got != c.Want, got
	}
	var in c8replay
	if !remarshal(c.Input, &in) {
		return false, "bad input"
	}
	got := c8goat("q00000", c8pkgSource("q00000", []string{in.Body}), 1)
	return got[0] != c.Want, got[0]
}

func init() { register("C08", c8run, c8rerun) }
