package props

import (
	"fmt"
	"regexp"
	"sort"
	"strings"

	"github.com/philhassey/goatlang"

	"verif/internal/goat"
	"verif/internal/oracle"
	"verif/internal/par"
	"verif/internal/report"
)

// C12 — struct fields are independent, typed, and shared through references.
//
// (a) hash table: BFS to fixpoint over Set/Assign/Delete on colliding keys
//     (states merged on the dumped slot array), Get/Len compared with a Go map
//     in every state; from every state Copy + every 1-2 operations on either
//     handle (the other handle must not change).
// (b) exhaustive families across every growth/shrink threshold.
// (c) structs through scripts: F fields x M methods, forced index-collision
//     patterns, two instances + alias + type alias; expected text by
//     construction, Go toolchain on the quick slice.
// (d) the same types through the host API (NewStruct/GetAttr/SetAttr).

type c12op struct {
	Op string `json:"op"` // set, assign, delete
	K  int    `json:"k"`
	V  int    `json:"v,omitempty"`
	H  int    `json:"h,omitempty"` // handle (0 = original, 1 = copy)
}

func (o c12op) String() string {
	h := ""
	if o.H == 1 {
		h = "copy."
	}
	switch o.Op {
	case "delete":
		return fmt.Sprintf("%sDelete(%d)", h, o.K)
	case "copy":
		return "Copy()"
	}
	return fmt.Sprintf("%s%s(%d,%d)", h, strings.Title(o.Op), o.K, o.V)
}

type c12hist struct {
	Ops []c12op `json:"ops"`
}

func (h c12hist) String() string {
	var p []string
	for _, o := range h.Ops {
		p = append(p, o.String())
	}
	return strings.Join(p, " ")
}

// c12replay runs a history on fresh tables; returns both handles and reference maps.
func c12replayHist(h c12hist) (hs [2]*goatlang.VerifIntMap, refs [2]map[int]int) {
	hs[0] = goatlang.VerifNewIntMap(0)
	refs[0] = map[int]int{}
	for _, o := range h.Ops {
		t, ref := hs[o.H], refs[o.H]
		switch o.Op {
		case "set":
			t.Set(o.K, goatlang.Int(o.V))
			ref[o.K] = o.V
		case "assign":
			t.Assign(o.K, goatlang.Int(o.V))
			if _, ok := ref[o.K]; ok {
				ref[o.K] = o.V
			}
		case "delete":
			t.Delete(o.K)
			delete(ref, o.K)
		case "copy":
			hs[1] = hs[0].Copy()
			refs[1] = map[int]int{}
			for k, v := range refs[0] {
				refs[1][k] = v
			}
		}
	}
	return
}

func c12compare(t *goatlang.VerifIntMap, ref map[int]int, keys []int) string {
	if t.Len() != len(ref) {
		return fmt.Sprintf("Len() = %d, reference has %d", t.Len(), len(ref))
	}
	for _, k := range keys {
		v, ok := t.Get(k)
		want, wok := ref[k]
		if ok != wok || (ok && int(v.Float64()) != want) {
			return fmt.Sprintf("Get(%d) = (%v,%v), reference (%v,%v)", k, v.Float64(), ok, want, wok)
		}
	}
	return ""
}

func c12refStr(ref map[int]int) string {
	var p []string
	for k, v := range ref {
		p = append(p, fmt.Sprintf("%d:%d", k, v))
	}
	sort.Strings(p)
	return strings.Join(p, ",")
}

func c12tableBFS(r *report.Run, keys []int) (states, transitions int) {
	var alphabet []c12op
	for _, k := range keys {
		alphabet = append(alphabet, c12op{Op: "set", K: k, V: 1}, c12op{Op: "assign", K: k, V: 3}, c12op{Op: "delete", K: k})
	}
	seen := map[string]bool{}
	start := c12hist{}
	hs, _ := c12replayHist(start)
	seen[hs[0].Dump()] = true
	frontier := []c12hist{start}
	var all []c12hist
	for len(frontier) > 0 {
		all = append(all, frontier...)
		var next []c12hist
		for _, h := range frontier {
			hs, refs := c12replayHist(h)
			if p := c12compare(hs[0], refs[0], keys); p != "" {
				r.Fail(&report.Case{Kind: "table", Key: h.String(), Input: h, Want: "answers of a Go map", Got: p})
			}
			r.Outcome(c12refStr(refs[0]))
			for _, op := range alphabet {
				nh := c12hist{append(append([]c12op{}, h.Ops...), op)}
				nhs, _ := c12replayHist(nh)
				transitions++
				d := nhs[0].Dump()
				if !seen[d] {
					seen[d] = true
					next = append(next, nh)
				}
			}
		}
		frontier = next
		if len(all) > 400000 {
			r.NotExhaustive("table BFS state cap reached")
			break
		}
	}
	states = len(all)
	// Copy from every reachable state, then every single operation (and every pair on the small alphabet) on either handle
	par.DoChunk(len(all), 64, func(i int) {
		h := all[i]
		base := c12hist{append(append([]c12op{}, h.Ops...), c12op{Op: "copy"})}
		var rec func(cur c12hist, depth int)
		n := 0
		rec = func(cur c12hist, depth int) {
			hs, refs := c12replayHist(cur)
			n++
			for hd := 0; hd < 2; hd++ {
				if p := c12compare(hs[hd], refs[hd], keys); p != "" {
					r.Fail(&report.Case{Kind: "table", Key: cur.String(), Input: cur, Want: "a write to one handle is invisible in the other; answers of a Go map", Got: fmt.Sprintf("handle %d: %s", hd, p)})
					return
				}
			}
			if depth == 0 {
				return
			}
			for _, op := range alphabet {
				if depth == 1 && i%16 != 0 {
					// a second operation after the copy: from every 16th state (in BFS order)
					continue
				}
				for hd := 0; hd < 2; hd++ {
					o := op
					o.H = hd
					rec(c12hist{append(append([]c12op{}, cur.Ops...), o)}, depth-1)
				}
			}
		}
		rec(base, 2)
		r.Eval(n)
		r.Add("copy_histories", n)
		if len(h.Ops) >= 3 {
			r.Nontrivial(h.String())
		}
	})
	if len(all) > 10 {
		h := all[len(all)/2]
		hs, _ := c12replayHist(h)
		r.Sample(map[string]any{"table_history": h.String(), "slot_dump": hs[0].Dump()})
	}
	return
}

// (b) families across thresholds
func c12families(r *report.Run, maxN int) int {
	total := 0
	type job struct{ n, p int }
	var jobs []job
	for n := 0; n <= maxN; n++ {
		for p := range c12patterns {
			jobs = append(jobs, job{n, p})
		}
	}
	par.Do(len(jobs), func(j int) {
		problem, cnt := c12family(jobs[j].n, jobs[j].p, maxN)
		if problem != "" {
			r.Fail(&report.Case{Kind: "family", Key: fmt.Sprintf("n=%d pattern=%s", jobs[j].n, c12patterns[jobs[j].p].name), Input: map[string]any{"n": jobs[j].n, "pattern": jobs[j].p}, Want: "answers of a Go map", Got: problem})
		}
		r.Eval(cnt + 1)
		if jobs[j].n > 12 {
			r.Nontrivial(fmt.Sprintf("%d/%d", jobs[j].n, jobs[j].p))
		}
	})
	total = len(jobs)
	return total
}

var c12patterns = []struct {
	name string
	key  func(i, n int) int
}{
	{"0..n-1", func(i, n int) int { return i }},
	{"stride 16", func(i, n int) int { return i * 16 }},
	{"stride 256", func(i, n int) int { return i * 256 }},
	{"descending", func(i, n int) int { return 1000 - i }},
	{"two interleaved strides", func(i, n int) int {
		if i%2 == 0 {
			return i * 8
		}
		return 5000 + i*64
	}},
	{"indexes = 15 mod 16", func(i, n int) int { return 15 + 16*i }},
	{"stride 1024+1", func(i, n int) int { return i * 1025 }},
}

func c12family(n, pi, maxN int) (problem string, cnt int) {
	pat := c12patterns[pi]
	keys := make([]int, n)
	for i := range keys {
		keys[i] = pat.key(i, n)
	}
	fail := func(what string) { problem = what }
	t := goatlang.VerifNewIntMap(0)
	for i, k := range keys {
		t.Set(k, goatlang.Int(k+1))
		if t.Len() != i+1 {
			fail(fmt.Sprintf("Len after %d inserts = %d", i+1, t.Len()))
			return
		}
	}
	check := func(absent int) bool {
		for _, k := range keys {
			v, ok := t.Get(k)
			if k == absent {
				if ok {
					fail(fmt.Sprintf("deleted key %d still present", k))
					return false
				}
				continue
			}
			if !ok || int(v.Float64()) != k+1 {
				fail(fmt.Sprintf("after deleting %d: Get(%d) = (%v,%v)", absent, k, v.Float64(), ok))
				return false
			}
		}
		return true
	}
	if !check(-1) {
		return
	}
	for _, k := range keys {
		t.Delete(k)
		if !check(k) {
			return
		}
		t.Set(k, goatlang.Int(k+1))
		if !check(-1) {
			return
		}
		cnt += 2
	}
	// delete everything in three orders down through the shrink thresholds
	for order := 0; order < 3; order++ {
		t2 := t.Copy()
		idx := make([]int, n)
		for i := range idx {
			switch order {
			case 0:
				idx[i] = i
			case 1:
				idx[i] = n - 1 - i
			default:
				idx[i] = (i*7 + 3) % maxInt(n, 1)
			}
		}
		if order == 2 {
			// make it a permutation
			seen := map[int]bool{}
			idx = idx[:0]
			for i := 0; len(idx) < n; i++ {
				c := (i*7 + 3) % n
				for seen[c] {
					c = (c + 1) % n
				}
				seen[c] = true
				idx = append(idx, c)
			}
		}
		gone := map[int]bool{}
		for _, i := range idx {
			t2.Delete(keys[i])
			gone[keys[i]] = true
			if t2.Len() != n-len(gone) {
				fail(fmt.Sprintf("order %d: Len after deleting %d keys = %d", order, len(gone), t2.Len()))
				return
			}
			for _, k := range keys {
				v, ok := t2.Get(k)
				if ok == gone[k] || (ok && int(v.Float64()) != k+1) {
					fail(fmt.Sprintf("order %d: after deleting %d keys Get(%d) = (%v,%v)", order, len(gone), k, v.Float64(), ok))
					return
				}
			}
			cnt++
		}
		// the original must be untouched by operations on its copy
		if !check(-1) {
			return
		}
	}
	return
}

func maxInt(a, b int) int {
	if a > b {
		return a
	}
	return b
}

// (c) structs through scripts -----------------------------------------------------

type c12ft struct {
	typ   string
	val   func(i int) string // Go expression stored
	show  func(e string, i int) string
	zero  func(e string) string
	wantV func(i int) string
}

var c12fts = []c12ft{
	{"int", func(i int) string { return fmt.Sprint(i*3 + 1) }, func(e string, i int) string { return e }, func(e string) string { return e + " == 0" }, func(i int) string { return fmt.Sprint(i*3 + 1) }},
	{"string", func(i int) string { return fmt.Sprintf("\"s%d\"", i) }, func(e string, i int) string { return e }, func(e string) string { return e + " == \"\"" }, func(i int) string { return fmt.Sprintf("s%d", i) }},
	{"float64", func(i int) string { return fmt.Sprintf("%d.5", i) }, func(e string, i int) string { return fmt.Sprintf("%s == %d.5", e, i) }, func(e string) string { return e + " == 0.0" }, func(i int) string { return "true" }},
	{"bool", func(i int) string { return "true" }, func(e string, i int) string { return e }, func(e string) string { return e + " == false" }, func(i int) string { return "true" }},
	{"byte", func(i int) string { return fmt.Sprint(200 + i%50) }, func(e string, i int) string { return e + " + 100" }, func(e string) string { return e + " == 0" }, func(i int) string { return fmt.Sprint((200 + i%50 + 100) % 256) }},
	{"[]int", func(i int) string { return fmt.Sprintf("[]int{%d, %d}", i, i+1) }, func(e string, i int) string { return fmt.Sprintf("len(%s), %s[1]", e, e) }, func(e string) string { return e + " == nil" }, func(i int) string { return fmt.Sprintf("2 %d", i+1) }},
	{"*T", func(i int) string { return "b" }, func(e string, i int) string { return e + " == b" }, func(e string) string { return e + " == nil" }, func(i int) string { return "true" }},
	{"int8", func(i int) string { return fmt.Sprint(100 + i%20) }, func(e string, i int) string { return e + " + 100" }, func(e string) string { return e + " == 0" }, func(i int) string { return fmt.Sprint(int8(100 + i%20 + 100)) }},
	{"map[string]int", func(i int) string { return fmt.Sprintf("map[string]int{\"k\": %d}", i) }, func(e string, i int) string { return e + "[\"k\"]" }, func(e string) string { return e + " == nil" }, func(i int) string { return fmt.Sprint(i) }},
	{"uint32", func(i int) string { return fmt.Sprint(4000000000 + i) }, func(e string, i int) string { return e }, func(e string) string { return e + " == 0" }, func(i int) string { return fmt.Sprint(4000000000 + i) }},
}

// c12program renders a struct program; order: 0 ascending, 1 descending, 2 strided writes; stride>0 forces field-index stride.
func c12program(pkg string, F, M, order, stride int) (src, want string) {
	var b, w strings.Builder
	b.WriteString("package " + pkg + "\n\nimport \"fmt\"\n\n")
	if stride > 0 && F > 0 {
		// a dummy type declared first interns the field names of T with `stride-1` other names in between
		b.WriteString("type D struct {\n")
		for i := 0; i < F; i++ {
			fmt.Fprintf(&b, "\tf%d int\n", i)
			for k := 1; k < stride; k++ {
				fmt.Fprintf(&b, "\tx%d_%d int\n", i, k)
			}
		}
		b.WriteString("}\n\n")
	}
	b.WriteString("type T struct {\n")
	for i := 0; i < F; i++ {
		fmt.Fprintf(&b, "\tf%d %s\n", i, c12fts[i%len(c12fts)].typ)
	}
	b.WriteString("}\n\ntype B = T\n\n")
	for m := 0; m < M; m++ {
		fmt.Fprintf(&b, "func (t *T) M%d(a int) int {\n\treturn a + %d\n}\n\n", m, (m+1)*1000)
	}
	b.WriteString("func Main() {\n\ta := &T{}\n\tb := &T{}\n\talias := a\n\tc := &B{}\n\t_ = b\n\t_ = alias\n\t_ = c\n")
	if stride > 0 && F > 0 {
		b.WriteString("\td := &D{}\n\td.f0 = 1\n\tfmt.Println(d.f0)\n")
		w.WriteString("1\n")
	}
	idx := make([]int, F)
	for i := range idx {
		switch order {
		case 0:
			idx[i] = i
		case 1:
			idx[i] = F - 1 - i
		default:
			idx[i] = (i * 7) % F
		}
	}
	if order == 2 {
		seen := map[int]bool{}
		idx = idx[:0]
		for i := 0; len(idx) < F; i++ {
			c := (i * 7) % F
			for seen[c] {
				c = (c + 1) % F
			}
			seen[c] = true
			idx = append(idx, c)
		}
	}
	for _, i := range idx {
		ft := c12fts[i%len(c12fts)]
		fmt.Fprintf(&b, "\ta.f%d = %s\n", i, ft.val(i))
	}
	// read everything back through the instance and the alias; untouched instances hold zero values
	for i := 0; i < F; i++ {
		ft := c12fts[i%len(c12fts)]
		fmt.Fprintf(&b, "\tfmt.Println(%d, %s, %s, %s, %s)\n", i, ft.show(fmt.Sprintf("a.f%d", i), i), ft.show(fmt.Sprintf("alias.f%d", i), i), ft.zero(fmt.Sprintf("b.f%d", i)), ft.zero(fmt.Sprintf("c.f%d", i)))
		fmt.Fprintf(&w, "%d %s %s true true\n", i, ft.wantV(i), ft.wantV(i))
	}
	for m := 0; m < M; m++ {
		fmt.Fprintf(&b, "\tfmt.Println(a.M%d(1), alias.M%d(2), b.M%d(3), c.M%d(4))\n", m, m, m, m)
		fmt.Fprintf(&w, "%d %d %d %d\n", (m+1)*1000+1, (m+1)*1000+2, (m+1)*1000+3, (m+1)*1000+4)
	}
	if M > 0 {
		// method value bound before a field write still sees the same object
		b.WriteString("\tg := a.M0\n\tfmt.Println(g(5))\n")
		fmt.Fprintf(&w, "%d\n", 1005)
	}
	b.WriteString("\tfmt.Println(\"done\")\n}\n")
	w.WriteString("done\n")
	return b.String(), w.String()
}

type c12prog struct {
	F, M, Order, Stride int
}

func c12run(r *report.Run) {
	thorough := r.Tier == "thorough"
	r.Rule("(a) all reachable slot-array states of the robin-hood table under Set/Assign/Delete over colliding keys, Copy from every state followed by all 1-2 operation continuations on either handle; (b) for every n up to a bound and 7 key patterns: insert n, delete/re-insert every single key, delete all in three orders; (c) struct programs for every field count F and method count M with three write orders and forced field-index strides; (d) host API on the same types; (f) all sequences of <=3 (thorough: 4) statements over 18 field statements (constants, ++, +=, a field computed from another field of the same or the other instance, swaps, byte wrap-around, stores through t.p) placed in locals, in a method and in package-level variables, against the same statements run natively on a Go struct; non-trivial = history with >=3 operations, family with n>12, struct program with F>=2")
	r.Assume("Go map per handle is the reference for the table; expected struct output is known by construction and the quick slice is also run by the Go toolchain", "key patterns and strides are fixed families, enumerated completely")
	keys := []int{0, 16, 32, 1, 15}
	maxN, maxF := 64, 64
	if thorough {
		keys = []int{0, 16, 32, 1, 15, 31}
		maxN, maxF = 220, 200
	}
	states, transitions := c12tableBFS(r, keys)
	r.Set("states", states)
	r.Set("transitions", transitions)
	r.Eval(states)
	fam := c12families(r, maxN)
	r.Set("table_families", fam)
	// (c) + (d)
	var progs []c12prog
	for F := 0; F <= maxF; F++ {
		for M := 0; M <= 3; M++ {
			order := (F + M) % 3
			progs = append(progs, c12prog{F, M, order, 0})
		}
		if F >= 2 && (F <= 24 || F%16 == 0) {
			for _, stride := range []int{16, 32, c12tableSize(F)} {
				progs = append(progs, c12prog{F, 1, F % 3, stride})
			}
		}
	}
	cache := oracle.OpenCache("c12")
	defer cache.Save()
	var goProgs []*oracle.Prog
	var goWant []string
	wants := make([]string, len(progs))
	srcs := make([]string, len(progs))
	for i, p := range progs {
		pkg := fmt.Sprintf("s%04d", i)
		srcs[i], wants[i] = c12program(pkg, p.F, p.M, p.Order, p.Stride)
		if p.F <= 40 {
			goProgs = append(goProgs, &oracle.Prog{Pkg: pkg, Files: map[string]string{"x.go": srcs[i]}, Entry: "Main"})
			goWant = append(goWant, wants[i])
		}
	}
	par.Do(len(progs), func(i int) {
		p := progs[i]
		pkg := fmt.Sprintf("s%04d", i)
		res := goat.RunMain(map[string]string{pkg + "/x.go": srcs[i]}, pkg, pkg+".Main")
		r.Eval(1)
		if p.F >= 2 {
			r.Nontrivial(fmt.Sprint(p))
		}
		got := res.Out
		if res.Failed() {
			got = res.String()
		}
		if got != wants[i] {
			r.Fail(&report.Case{Kind: "struct", Key: fmt.Sprintf("F=%d M=%d order=%d stride=%d", p.F, p.M, p.Order, p.Stride), Input: p, Want: c12diff(wants[i], got), Got: c12diff(got, wants[i])})
		}
		if i == 37 {
			r.Sample(map[string]any{"struct_program": fmt.Sprintf("F=%d M=%d order=%d stride=%d", p.F, p.M, p.Order, p.Stride), "source_head": trunc(srcs[i], 700)})
		}
		// (d) host API on the loaded type
		if p.Stride == 0 && p.M <= 1 {
			if problem := c12host(pkg, srcs[i], p.F); problem != "" {
				r.Fail(&report.Case{Kind: "host", Key: fmt.Sprintf("host API F=%d M=%d", p.F, p.M), Input: p, Want: "fields independent, typed, shared through references", Got: problem})
			}
			r.Eval(1)
		}
	})
	// (e) many methods: the shared method table crosses its growth thresholds (13, 25, 49, 97 entries); instances
	// created BEFORE the methods are declared (source order is kept by Eval; one chunk or one Eval per declaration)
	// and after; every method must be found on both.
	maxM := 40
	if thorough {
		maxM = 130
	}
	type mjob struct{ n, mode int }
	var mjobs []mjob
	for n := 0; n <= maxM; n++ {
		for mode := 0; mode < 3; mode++ {
			mjobs = append(mjobs, mjob{n, mode})
		}
	}
	par.Do(len(mjobs), func(i int) {
		j := mjobs[i]
		want, got := c12methods(j.n, j.mode)
		r.Eval(1)
		if j.n >= 12 {
			r.Nontrivial(fmt.Sprintf("methods %d/%d", j.n, j.mode))
		}
		if got != want {
			r.Fail(&report.Case{Kind: "methods", Key: fmt.Sprintf("type with %d methods, mode %d (0: one Eval, early instance first; 1: one Eval per declaration; 2: loaded package)", j.n, j.mode), Input: map[string]int{"n": j.n, "mode": j.mode}, Want: c12diff(want, got), Got: c12diff(got, want)})
		}
	})
	r.Set("method_table_programs", len(mjobs))
	// (f) field-statement histories
	depthF := 3
	if thorough {
		depthF = 4
	}
	goF, wantF := c12fieldHistories(r, depthF)
	goProgs = append(goProgs, goF...)
	goWant = append(goWant, wantF...)
	gres, err := cache.Run(goProgs)
	validated := 0
	if err != nil {
		r.HarnessError("Go oracle: %v", err)
	} else {
		for k, gr := range gres {
			if gr.BuildErr != "" {
				r.HarnessError("struct program rejected by the Go toolchain: %s", gr.BuildErr)
			} else if gr.Out != goWant[k] || gr.Panicked {
				r.HarnessError("expected output by construction disagrees with the Go toolchain for %s:\n%s", goProgs[k].Pkg, c12diff(gr.Out, goWant[k]))
			} else {
				validated++
			}
		}
	}
	r.Set("traces_validated_against_impl", validated)
	r.Set("struct_programs", len(progs))
	if r.Expired() {
		r.NotExhaustive("internal deadline reached")
	}
}

// (f) field-statement histories -----------------------------------------------------------
//
// All sequences of <= depth statements over an alphabet of field statements on two instances t, u (u reachable through
// t.p as well) of a struct with fields f, g int; h byte; p *S: constants, ++, +=, a field computed from ANOTHER field of
// the same / the other instance plus or minus a constant, swaps, stores through t.p.  Three placements of the same
// statements: locals of a function, the receiver and an argument of a method, package-level variables.  Reference: the
// same statements executed natively on a Go struct (the statements are given as source text and as Go closures).

type c12S struct {
	f, g int
	h    byte
	p    *c12S
}

type c12fstmt struct {
	src string
	do  func(t, u *c12S)
}

var c12fstmts = []c12fstmt{
	{"t.f = 5", func(t, u *c12S) { t.f = 5 }},
	{"t.f++", func(t, u *c12S) { t.f++ }},
	{"t.g += 2", func(t, u *c12S) { t.g += 2 }},
	{"t.g = t.f + 3", func(t, u *c12S) { t.g = t.f + 3 }},
	{"t.g = t.f - 1", func(t, u *c12S) { t.g = t.f - 1 }},
	{"t.f = t.g + 1", func(t, u *c12S) { t.f = t.g + 1 }},
	{"t.f = t.f + 1", func(t, u *c12S) { t.f = t.f + 1 }},
	{"u.f = t.f + 1", func(t, u *c12S) { u.f = t.f + 1 }},
	{"t.g = u.g + 7", func(t, u *c12S) { t.g = u.g + 7 }},
	{"t.f, t.g = t.g, t.f", func(t, u *c12S) { t.f, t.g = t.g, t.f }},
	{"t.h = t.h + 200", func(t, u *c12S) { t.h = t.h + 200 }},
	{"t.h += 100", func(t, u *c12S) { t.h += 100 }},
	{"t.p.g = t.f + 1", func(t, u *c12S) { t.p.g = t.f + 1 }},
	{"t.p.f++", func(t, u *c12S) { t.p.f++ }},
	{"t.g = t.p.f - 2", func(t, u *c12S) { t.g = t.p.f - 2 }},
	{"u.h = t.h + 1", func(t, u *c12S) { u.h = t.h + 1 }},
	{"t.p.g, u.g = 5, 6", func(t, u *c12S) { t.p.g, u.g = 5, 6 }},
	{"u.f, t.p.f = t.f, t.g", func(t, u *c12S) { u.f, t.p.f = t.f, t.g }},
}

var c12tuRe = regexp.MustCompile(`\b(t|u)\b`)

// c12glob rewrites the variables t and u (whole words) to the package-level gt and gu
func c12glob(s string) string { return c12tuRe.ReplaceAllString(s, "g$1") }

func c12fieldHistories(r *report.Run, depth int) (progs []*oracle.Prog, wants []string) {
	n := len(c12fstmts)
	var seqs [][]int
	var rec func(cur []int)
	rec = func(cur []int) {
		if len(cur) > 0 {
			seqs = append(seqs, append([]int{}, cur...))
		}
		if len(cur) == depth {
			return
		}
		for k := 0; k < n; k++ {
			rec(append(cur, k))
		}
	}
	rec(nil)
	r.Set("field_statement_histories", len(seqs))
	const per = 150
	show := "fmt.Println(t.f, t.g, t.h, u.f, u.g, u.h, t.p == u)\n"
	type pk struct {
		name, src string
		want      []string
		seqs      [][]int
	}
	var pkgs []pk
	for s0 := 0; s0 < len(seqs); s0 += per {
		e := s0 + per
		if e > len(seqs) {
			e = len(seqs)
		}
		name := fmt.Sprintf("h%04d", s0/per)
		var b strings.Builder
		b.WriteString("package " + name + "\n\nimport \"fmt\"\n\ntype S struct {\n\tf int\n\tg int\n\th byte\n\tp *S\n}\n\nvar gt, gu *S\n\n")
		var want []string
		for i, sq := range seqs[s0:e] {
			var body strings.Builder
			for _, k := range sq {
				body.WriteString("\t" + c12fstmts[k].src + "\n")
			}
			// placement 1: locals; 2: method receiver + argument; 3: package-level variables
			fmt.Fprintf(&b, "func L%d() {\n\tu := &S{f: 20, g: 30, h: 40}\n\tt := &S{f: 1, g: 2, h: 250, p: u}\n%s\t%s}\n\n", i, body.String(), show)
			fmt.Fprintf(&b, "func (t *S) M%d(u *S) {\n%s\t%s}\n\n", i, body.String(), show)
			fmt.Fprintf(&b, "func G%d() {\n\tgu = &S{f: 20, g: 30, h: 40}\n\tgt = &S{f: 1, g: 2, h: 250, p: gu}\n%s\t%s}\n\n", i, c12glob(body.String()), c12glob(show))
			fmt.Fprintf(&b, "func F%d() {\n\tL%d()\n\tu := &S{f: 20, g: 30, h: 40}\n\tt := &S{f: 1, g: 2, h: 250, p: u}\n\tt.M%d(u)\n\tG%d()\n}\n\n", i, i, i, i)
			mu := &c12S{f: 20, g: 30, h: 40}
			mt := &c12S{f: 1, g: 2, h: 250, p: mu}
			for _, k := range sq {
				c12fstmts[k].do(mt, mu)
			}
			line := fmt.Sprintln(mt.f, mt.g, mt.h, mu.f, mu.g, mu.h, mt.p == mu)
			want = append(want, line+line+line)
		}
		b.WriteString("func Main() {\n")
		for i := range seqs[s0:e] {
			fmt.Fprintf(&b, "\tF%d()\n", i)
		}
		b.WriteString("}\n")
		pkgs = append(pkgs, pk{name, b.String(), want, seqs[s0:e]})
	}
	par.Do(len(pkgs), func(k int) {
		p := pkgs[k]
		m := goat.New()
		defer m.Close()
		lr := m.Load(goat.FS(map[string]string{p.name + "/x.go": p.src}), p.name)
		if lr.Failed() {
			r.Fail(&report.Case{Kind: "fields", Key: "package " + p.name + " of field-statement histories does not load", Files: map[string]string{p.name + "/x.go": p.src}, Want: "loads", Got: lr.String()})
			return
		}
		for i, sq := range p.seqs {
			res := m.Call(fmt.Sprintf("%s.F%d", p.name, i), 0)
			r.Eval(1)
			got := res.Out
			if res.Failed() {
				got = res.String()
			}
			var st []string
			for _, k := range sq {
				st = append(st, c12fstmts[k].src)
			}
			key := strings.Join(st, "; ")
			if len(sq) >= 2 {
				r.Nontrivial("fields " + key)
			}
			if got != p.want[i] {
				r.Fail(&report.Case{Kind: "fields", Key: "statements: " + key + " (printed from locals, from a method, from package-level variables)", Input: map[string]any{"seq": sq}, Want: p.want[i], Got: got})
			}
		}
	})
	// Go toolchain on the packages holding the histories of <= 2 statements (and every 8th other package)
	for k, p := range pkgs {
		if len(p.seqs[len(p.seqs)-1]) <= 2 || k%8 == 0 {
			progs = append(progs, &oracle.Prog{Pkg: p.name, Files: map[string]string{"x.go": p.src}, Entry: "Main"})
			wants = append(wants, strings.Join(p.want, ""))
		}
	}
	return
}

// c12methods: a type with n methods; returns expected and observed output.
func c12methods(n, mode int) (want, got string) {
	var chunks []string
	chunks = append(chunks, "import \"fmt\"\ntype T struct {\n\ta int\n\tb string\n}\n")
	chunks = append(chunks, "early := &T{a: 1}\n")
	for k := 0; k < n; k++ {
		chunks = append(chunks, fmt.Sprintf("func (t *T) M%d(x int) int {\n\treturn x + t.a + %d\n}\n", k, k*100))
	}
	chunks = append(chunks, "late := &T{a: 2}\n")
	var calls, w strings.Builder
	for k := 0; k < n; k++ {
		fmt.Fprintf(&calls, "fmt.Println(%d, early.M%d(10), late.M%d(10))\n", k, k, k)
		fmt.Fprintf(&w, "%d %d %d\n", k, 11+k*100, 12+k*100)
	}
	calls.WriteString("early.a = 5\nfmt.Println(early.a, late.a)\n")
	w.WriteString("5 2\n")
	if n > 0 {
		fmt.Fprintf(&calls, "g := early.M%d\nfmt.Println(g(1))\n", n-1)
		fmt.Fprintf(&w, "%d\n", 6+(n-1)*100)
	}
	chunks = append(chunks, calls.String())
	want = w.String()
	m := goat.New()
	defer m.Close()
	imports := map[string]string{}
	switch mode {
	case 0:
		res := m.Eval(nil, strings.Join(chunks, ""), goatlang.WithEvalImports(imports))
		got = res.Out
		if res.Failed() {
			got = res.String()
		}
	case 1:
		for _, c := range chunks {
			res := m.Eval(nil, c, goatlang.WithEvalImports(imports))
			got += res.Out
			if res.Failed() {
				got += res.String()
				break
			}
		}
	default:
		// as a loaded package: instances are necessarily created after the declarations
		var b strings.Builder
		b.WriteString("package mm\n\nimport \"fmt\"\n\ntype T struct {\n\ta int\n\tb string\n}\n\n")
		for k := 0; k < n; k++ {
			fmt.Fprintf(&b, "func (t *T) M%d(x int) int {\n\treturn x + t.a + %d\n}\n\n", k, k*100)
		}
		b.WriteString("func Main() {\n\tearly := &T{a: 1}\n\tlate := &T{a: 2}\n" + c4indent(calls.String()) + "}\n")
		res := goat.RunMain(map[string]string{"mm/x.go": b.String()}, "mm", "mm.Main")
		got = res.Out
		if res.Failed() {
			got = res.String()
		}
	}
	return want, got
}

func c12tableSize(F int) int {
	size := 16
	for size < F<<1 {
		size <<= 1
	}
	return size
}

// c12diff shows the first differing line of a against b.
func c12diff(a, b string) string {
	al, bl := strings.Split(a, "\n"), strings.Split(b, "\n")
	for i := range al {
		if i >= len(bl) || al[i] != bl[i] {
			return fmt.Sprintf("line %d: %q", i+1, trunc(al[i], 300))
		}
	}
	return fmt.Sprintf("(%d lines, prefix of the other)", len(al))
}

func trunc(s string, n int) string {
	if len(s) > n {
		return s[:n] + "…"
	}
	return s
}

// c12host exercises NewStruct / GetAttr / SetAttr on type T of the loaded package.
func c12host(pkg, src string, F int) string {
	m := goat.New()
	defer m.Close()
	if lr := m.Load(goat.FS(map[string]string{pkg + "/x.go": src}), pkg); lr.Failed() {
		return "load failed: " + lr.String()
	}
	var problem string
	func() {
		defer func() {
			if p := recover(); p != nil {
				problem = fmt.Sprintf("host panic: %v", p)
			}
		}()
		typ := m.VM.Get(pkg + ".T")
		var init []goatlang.Value
		if F > 0 {
			init = []goatlang.Value{goatlang.String("f0"), goatlang.Int(41)}
		}
		a := goatlang.NewStruct(typ, init)
		b := goatlang.NewStruct(typ, nil)
		alias := a
		intFields := []int{}
		for i := 0; i < F; i++ {
			if c12fts[i%len(c12fts)].typ == "int" {
				intFields = append(intFields, i)
			}
		}
		for _, i := range intFields {
			if i == 0 {
				if v := a.GetAttr("f0"); v.Int() != 41 {
					problem = fmt.Sprintf("NewStruct initial value f0 = %v", v)
					return
				}
			}
			a.SetAttr(fmt.Sprintf("f%d", i), goatlang.Int(i+500))
		}
		for _, i := range intFields {
			n := fmt.Sprintf("f%d", i)
			if v := alias.GetAttr(n); v.Int() != i+500 {
				problem = fmt.Sprintf("alias.%s = %v after SetAttr(%d)", n, v, i+500)
				return
			}
			if v := b.GetAttr(n); v.Int() != 0 || m.TypeOf(v) != "int32" {
				problem = fmt.Sprintf("untouched instance %s = %v (%s)", n, v, m.TypeOf(v))
				return
			}
		}
		// string fields keep their zero value and type on the other instance
		for i := 0; i < F; i++ {
			if c12fts[i%len(c12fts)].typ == "string" {
				n := fmt.Sprintf("f%d", i)
				a.SetAttr(n, goatlang.String("host"))
				if v := b.GetAttr(n); v.String() != "" || m.TypeOf(v) != "string" {
					problem = fmt.Sprintf("untouched instance %s = %q (%s)", n, v.String(), m.TypeOf(v))
					return
				}
				if v := alias.GetAttr(n); v.String() != "host" {
					problem = fmt.Sprintf("alias.%s = %q", n, v.String())
					return
				}
			}
		}
	}()
	return problem
}

func c12rerun(c *report.Case) (bool, string) {
	if c.Kind == "fields" {
		rr := report.New("C12", "quick")
		c12fieldHistories(rr, 3)
		return rr.Violations() > 0, fmt.Sprintf("%d failing field-statement histories", rr.Violations())
	}
	switch c.Kind {
	case "table":
		var h c12hist
		if !remarshal(c.Input, &h) {
			return false, "bad input"
		}
		hs, refs := c12replayHist(h)
		keys := []int{0, 16, 32, 1, 17, 15, 31, 2}
		for hd := 0; hd < 2; hd++ {
			if hs[hd] == nil {
				continue
			}
			if p := c12compare(hs[hd], refs[hd], keys); p != "" {
				return true, p
			}
		}
		return false, "agrees with the reference"
	case "struct", "host":
		var p c12prog
		if !remarshal(c.Input, &p) {
			return false, "bad input"
		}
		src, want := c12program("s0000", p.F, p.M, p.Order, p.Stride)
		if c.Kind == "host" {
			pr := c12host("s0000", src, p.F)
			return pr != "", pr
		}
		res := goat.RunMain(map[string]string{"s0000/x.go": src}, "s0000", "s0000.Main")
		got := res.Out
		if res.Failed() {
			got = res.String()
		}
		return got != want, c12diff(got, want)
	case "methods":
		var in struct{ N, Mode int }
		if !remarshal(c.Input, &in) {
			return false, "bad input"
		}
		want, got := c12methods(in.N, in.Mode)
		return want != got, c12diff(got, want)
	case "family":
		var in struct{ N, Pattern int }
		if !remarshal(c.Input, &in) {
			return false, "bad input"
		}
		pr, _ := c12family(in.N, in.Pattern, 220)
		return pr != "", pr
	}
	return false, "unknown kind"
}

func init() { register("C12", c12run, c12rerun) }
