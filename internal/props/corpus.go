package props

import (
	"fmt"
	"go/ast"
	"go/parser"
	"go/token"
	"os"
	"path/filepath"
	"regexp"
	"sort"
	"strconv"
	"strings"

	"github.com/philhassey/goatlang"

	"verif/internal/goat"
)

// The shared corpus: programs produced by the property generators (re-used, not
// regenerated differently) plus every string literal of the repository's own
// test tables.  C02 runs it with the optimizer on and off, C07 explores the
// bytecode of every function in it, C03 uses it as seeds.

type cCall struct {
	Fn   string
	NRet int
	Args []goatlang.Value
}

type cItem struct {
	Name    string
	Files   map[string]string
	Dir     string // Load(Dir) when non-empty
	EvalSrc string // otherwise Eval(EvalSrc)
	Calls   []cCall
}

// cObserve runs an item on a fresh VM and returns one observation string per step (load/eval, then each call).
func cObserve(it *cItem, opts ...goatlang.RunOption) []string {
	m := goat.New()
	defer m.Close()
	m.Ctx.MaxSteps = 300_000
	var obs []string
	var first goat.Result
	if it.Dir != "" {
		first = m.Load(goat.FS(it.Files), it.Dir, opts...)
	} else {
		first = m.Eval(goat.FS(it.Files), it.EvalSrc, opts...)
	}
	obs = append(obs, cRender(m, first))
	if first.Failed() {
		return obs
	}
	for _, c := range it.Calls {
		r := m.Call(c.Fn, c.NRet, c.Args...)
		obs = append(obs, cRender(m, r))
	}
	return obs
}

var cPosRe = regexp.MustCompile(`([^\s:]*\(\.\.\.\) )?([^\s:]+):(\d+):(\d+)`)

// cErrorShape reduces an error text to what C02/C20 compare: per line the (function, file, line); opcode names and columns dropped.
func cErrorShape(err error) string {
	if err == nil {
		return ""
	}
	var out []string
	for _, l := range strings.Split(err.Error(), "\n") {
		mm := cPosRe.FindAllStringSubmatch(l, -1)
		var p []string
		for _, x := range mm {
			p = append(p, strings.TrimSpace(x[1])+x[2]+":"+x[3])
		}
		out = append(out, strings.Join(p, ">"))
	}
	return strings.Join(out, " / ")
}

var cMapRe = regexp.MustCompile(`map\[[^\[\]]*\]`)

// cNormMaps sorts the entries of every printed map: goatlang prints multi-entry maps in Go's randomised
// iteration order, which the property does not constrain (nondeterminism owned by the harness).
func cNormMaps(s string) string {
	if !strings.Contains(s, "map[") {
		return s
	}
	for i := 0; i < 4; i++ { // innermost first; the replacement uses braces so that outer maps match next round
		s = cMapRe.ReplaceAllStringFunc(s, func(m string) string {
			f := strings.Fields(m[4 : len(m)-1])
			sort.Strings(f)
			return "map{" + strings.Join(f, " ") + "}"
		})
	}
	return s
}

func cRender(m *goat.M, r goat.Result) string {
	var b strings.Builder
	b.WriteString(r.Status())
	if r.Budget {
		return "budget" // non-terminating within the budget: no further detail is comparable
	}
	if r.HostPanic != nil {
		fmt.Fprintf(&b, " %v", r.HostPanic)
	}
	if r.Err != nil {
		b.WriteString(" @" + cErrorShape(r.Err))
	}
	b.WriteString(" out=" + strconv.Quote(cNormMaps(r.Out)))
	for _, v := range r.Rets {
		b.WriteString(" ret=" + cValueString(m, v))
	}
	return b.String()
}

func cValueString(m *goat.M, v goatlang.Value) (s string) {
	defer func() {
		if p := recover(); p != nil {
			s = fmt.Sprintf("<unprintable:%v>", p)
		}
	}()
	t := m.TypeOf(v)
	if t == "func" || strings.HasPrefix(v.String(), "&{0x") || strings.Contains(v.String(), "0x") {
		return "<" + t + ">" // addresses differ from run to run
	}
	return cNormMaps(v.String()) + ":" + t
}

// harvest: every string literal inside a composite literal of the repository's *_test.go files.
type harvested struct {
	Strings []string            // single inputs
	Trees   []map[string]string // mapFS literals kept together as file trees
}

func harvest() (*harvested, error) {
	h := &harvested{}
	files, err := filepath.Glob("/repo/*_test.go")
	if err != nil {
		return nil, err
	}
	sort.Strings(files)
	seen := map[string]bool{}
	fset := token.NewFileSet()
	for _, f := range files {
		src, err := os.ReadFile(f)
		if err != nil {
			return nil, err
		}
		af, err := parser.ParseFile(fset, f, src, 0)
		if err != nil {
			continue // a test file that does not parse contributes nothing
		}
		ast.Inspect(af, func(n ast.Node) bool {
			cl, ok := n.(*ast.CompositeLit)
			if !ok {
				return true
			}
			// mapFS{...}: keep as a tree
			if id, ok := cl.Type.(*ast.Ident); ok && id.Name == "mapFS" {
				tree := map[string]string{}
				for _, e := range cl.Elts {
					kv, ok := e.(*ast.KeyValueExpr)
					if !ok {
						continue
					}
					k, ok1 := kv.Key.(*ast.BasicLit)
					v, ok2 := kv.Value.(*ast.BasicLit)
					if ok1 && ok2 && k.Kind == token.STRING && v.Kind == token.STRING {
						ks, _ := strconv.Unquote(k.Value)
						vs, _ := strconv.Unquote(v.Value)
						tree[ks] = vs
					}
				}
				if len(tree) > 0 {
					h.Trees = append(h.Trees, tree)
				}
			}
			for _, e := range cl.Elts {
				if kv, ok := e.(*ast.KeyValueExpr); ok {
					e = kv.Value
				}
				if bl, ok := e.(*ast.BasicLit); ok && bl.Kind == token.STRING {
					s, err := strconv.Unquote(bl.Value)
					if err == nil && !seen[s] {
						seen[s] = true
						h.Strings = append(h.Strings, s)
					}
				}
			}
			return true
		})
	}
	return h, nil
}

// --- corpus builders ----------------------------------------------------------------

func corpusC06(maxN, nFlavors int) []cItem {
	g := &c6gen{stmts: map[string][]*c6stmt{}, blocks: map[string][][]*c6stmt{}}
	top := c6ctx{}
	var items []cItem
	var bodies []string
	flush := func() {
		if len(bodies) == 0 {
			return
		}
		pkg := fmt.Sprintf("k%05d", len(items))
		it := cItem{Name: "C06/" + pkg, Files: map[string]string{pkg + "/" + pkg + ".go": c6pkgSource(pkg, bodies)}, Dir: pkg}
		for i := range bodies {
			it.Calls = append(it.Calls, cCall{Fn: pkg + ".Reset"}, cCall{Fn: fmt.Sprintf("%s.F%d", pkg, i)}, cCall{Fn: pkg + ".Out", NRet: 1})
		}
		items = append(items, it)
		bodies = nil
	}
	emit := func(prog []*c6stmt) {
		if _, ok := c6refAll(prog); !ok { // Main enters every function from every start state
			return
		}
		for fl := 0; fl < nFlavors; fl++ {
			if fl > 0 && !c6usesConst(prog) {
				continue
			}
			bodies = append(bodies, c6body(prog, fl))
			if len(bodies) == c6perPkg {
				flush()
			}
		}
	}
	for size := 1; size <= maxN; size++ {
		for _, s := range g.allStmts(size, top) {
			emit([]*c6stmt{s})
		}
		for a := 1; a < size; a++ {
			for _, s1 := range g.allStmts(a, top) {
				for _, s2 := range g.allStmts(size-a, top) {
					emit([]*c6stmt{s1, s2})
				}
			}
		}
	}
	flush()
	return items
}

func corpusC08(maxN int) []cItem {
	g := &c8gen{}
	var items []cItem
	var bodies []string
	flush := func() {
		if len(bodies) == 0 {
			return
		}
		pkg := fmt.Sprintf("s%05d", len(items))
		it := cItem{Name: "C08/" + pkg, Files: map[string]string{pkg + "/" + pkg + ".go": c8pkgSource(pkg, bodies)}, Dir: pkg}
		for i := range bodies {
			it.Calls = append(it.Calls, cCall{Fn: pkg + ".Reset"}, cCall{Fn: fmt.Sprintf("%s.F%d", pkg, i)}, cCall{Fn: pkg + ".Out", NRet: 1})
		}
		items = append(items, it)
		bodies = nil
	}
	for size := 1; size <= maxN; size++ {
		for _, prog := range g.blocks(size, 0, 3) {
			bodies = append(bodies, c8body(prog))
			if len(bodies) == 400 {
				flush()
			}
		}
	}
	flush()
	return items
}

// corpusC04: every numeric form, called with a spread of operand tuples.
func corpusC04(thorough bool, perForm int) []cItem {
	var items []cItem
	for _, t := range []c4T{c4i8, c4u8, c4i32, c4u32, c4f64} {
		fs := c4forms(t, thorough)
		for s := 0; s < len(fs); s += c4perPkg {
			e := s + c4perPkg
			if e > len(fs) {
				e = len(fs)
			}
			pkg := fmt.Sprintf("n%s%03d", c4name[t], s/c4perPkg)
			it := cItem{Name: "C04/" + pkg, Files: map[string]string{pkg + "/x.go": c4pkgSource(pkg, t, fs[s:e])}, Dir: pkg}
			for _, f := range fs[s:e] {
				var tuples [][]float64
				c4forEachArgs(f, func(a []float64) { tuples = append(tuples, append([]float64{}, a...)) })
				step := len(tuples)/perForm + 1
				for i := 0; i < len(tuples); i += step {
					var args []goatlang.Value
					for k, a := range tuples[i] {
						args = append(args, c4value(f.argT[k], a))
					}
					it.Calls = append(it.Calls, cCall{Fn: pkg + "." + f.name, NRet: 1, Args: args})
				}
				if len(tuples) > 1 { // always the last tuple too (extreme operands)
					var args []goatlang.Value
					for k, a := range tuples[len(tuples)-1] {
						args = append(args, c4value(f.argT[k], a))
					}
					it.Calls = append(it.Calls, cCall{Fn: pkg + "." + f.name, NRet: 1, Args: args})
				}
			}
			items = append(items, it)
		}
	}
	return items
}

func corpusC11(nv, depth int) []cItem {
	var items []cItem
	type node struct {
		h c11hist
		s *c11state
	}
	frontier := []node{{c11hist{NV: nv}, c11initial(nv)}}
	seen := map[string]bool{}
	for d := 0; d < depth; d++ {
		var next []node
		for _, n := range frontier {
			for _, o := range n.s.alphabet(nv, false) {
				nh := c11hist{NV: nv, Ops: append(append([]c11op{}, n.h.Ops...), o)}
				ns := n.s.clone()
				ok := ns.apply(o)
				stmts, _, _, _ := c11model(nh)
				pkg := fmt.Sprintf("h%06d", len(items))
				items = append(items, cItem{Name: "C11/" + pkg, Files: map[string]string{pkg + "/h.go": c11scriptL(pkg, nh, stmts, false)}, Dir: pkg, Calls: []cCall{{Fn: pkg + ".Main"}}})
				if ok {
					k := ns.canon()
					if !seen[k] {
						seen[k] = true
						next = append(next, node{nh, ns})
					}
				}
			}
		}
		frontier = next
	}
	return items
}

func corpusC12(maxF int) []cItem {
	var items []cItem
	for F := 0; F <= maxF; F++ {
		for M := 0; M <= 3; M++ {
			pkg := fmt.Sprintf("t%04d", len(items))
			src, _ := c12program(pkg, F, M, (F+M)%3, 0)
			items = append(items, cItem{Name: "C12/" + pkg, Files: map[string]string{pkg + "/x.go": src}, Dir: pkg, Calls: []cCall{{Fn: pkg + ".Main"}}})
		}
	}
	return items
}

func corpusC18(maxLen int) []cItem {
	var items []cItem
	nt := len(c18tpls)
	var rec func(cur []int)
	rec = func(cur []int) {
		if len(cur) > 0 && c18valid(cur) {
			items = append(items, cItem{Name: fmt.Sprintf("C18/%v", cur), Files: c18files, EvalSrc: strings.Join(c18chunks(cur, 0), "")})
		}
		if len(cur) == maxLen {
			return
		}
		if len(cur) > 0 && !c18valid(cur) && !c18tpls[cur[len(cur)-1]].final {
			return
		}
		if len(cur) > 0 && c18tpls[cur[len(cur)-1]].final {
			return
		}
		for k := 0; k < nt; k++ {
			rec(append(cur, k))
		}
	}
	rec(nil)
	return items
}

func corpusHarvest() ([]cItem, error) {
	h, err := harvest()
	if err != nil {
		return nil, err
	}
	var items []cItem
	for i, s := range h.Strings {
		if strings.Contains(s, "rand.") || strings.Contains(s, "time.") || strings.Contains(s, "os.") {
			continue // nondeterministic or environment-dependent inputs are not compared
		}
		items = append(items, cItem{Name: fmt.Sprintf("test-table/%d", i), EvalSrc: s})
	}
	for i, t := range h.Trees {
		dirs := map[string]bool{}
		for p := range t {
			if j := strings.IndexByte(p, '/'); j > 0 {
				dirs[p[:j]] = true
			}
		}
		var ds []string
		for d := range dirs {
			ds = append(ds, d)
		}
		sort.Strings(ds)
		for _, d := range ds {
			items = append(items, cItem{Name: fmt.Sprintf("test-tree/%d/%s", i, d), Files: t, Dir: d})
		}
	}
	return items, nil
}

// corpusWide: functions whose frames hold `w` locals before the ones a statement uses, for w at and across 127/128 and
// 255/256 (slot numbers travel in packed operand fields), entered directly (F) and from a caller with as many live
// locals (W, which checks that its own locals survived).  Main prints every result (for the Go toolchain).
func cWideWidths(thorough bool) []int {
	if thorough {
		return []int{1, 100, 120, 126, 127, 128, 129, 130, 200, 254, 255, 256, 257, 300}
	}
	return []int{120, 127, 128, 129, 255, 256, 257}
}

func corpusWide(widths []int) []cItem {
	var items []cItem
	for _, w := range widths {
		pkg := fmt.Sprintf("wide%03d", w)
		var b strings.Builder
		b.WriteString("package " + pkg + "\n\nimport \"fmt\"\n\ntype T struct {\n\tn int\n\tm int\n}\n\nfunc (t *T) Add(a int, b int) int {\n\tt.n += a\n\treturn t.n + b\n}\n\nfunc (t *T) Sum(xs ...int) int {\n\ts := t.n\n\tfor _, x := range xs {\n\t\ts += x\n\t}\n\treturn s\n}\n\nfunc id(a int) int {\n\treturn a\n}\n\n")
		pad := func(prefix string, val int) {
			for i := 0; i < w; i++ {
				fmt.Fprintf(&b, "\t%s%d := %d\n", prefix, i, val+i)
			}
		}
		padSum := func(prefix string) string {
			var parts []string
			for i := 0; i < w; i++ { // every one of them: the Go toolchain rejects an unused local
				parts = append(parts, fmt.Sprintf("%s%d", prefix, i))
			}
			return strings.Join(parts, " + ")
		}
		bodies := []string{
			"xs := []int{a, b, 3}\n\tfor k, v := range xs {\n\t\tr += k*10 + v\n\t}",
			"m := map[string]int{\"k\": a}\n\tfor k, v := range m {\n\t\tr += len(k) + v\n\t}",
			"for i, c := range \"héy\" {\n\t\tr += i + int(c)%7\n\t}",
			"x, y := a, b\n\tx++\n\ty--\n\tx += 3\n\ty -= 2\n\tr = x*y + x - y + x/(y*y+1)",
			"s := []int{1, 2, 3}\n\ts[1] = a\n\tm := map[string]int{}\n\tm[\"k\"] = b\n\tim := map[int]int{}\n\tim[2] = a + b\n\tr = s[1]*100 + m[\"k\"]*10 + im[2] + s[2]",
			"t := &T{n: a}\n\tt.m = t.n + 2\n\tt.n++\n\tr = t.Add(b, 1)*100 + t.Sum(1, a, b) + t.m",
			"switch a + b {\n\tcase 3:\n\t\tr = 1\n\tcase 7:\n\t\tr = 2\n\tdefault:\n\t\tr = 3\n\t}\n\tswitch x := id(a); {\n\tcase x > 2:\n\t\tr += 10\n\tdefault:\n\t\tr += 20\n\t}",
			"f := func(p int) int {\n\t\tq := p * 2\n\t\treturn q + 1\n\t}\n\tg := id\n\tr = f(a)*10 + g(b)",
			"for i := 0; i < 3; i++ {\n\t\tfor j, v := range []int{a, b} {\n\t\t\tif v == 0 {\n\t\t\t\tcontinue\n\t\t\t}\n\t\t\tr += i*j + v\n\t\t}\n\t\tif r > 1000 {\n\t\t\tbreak\n\t\t}\n\t}",
			"var q, z int = a, b\n\tvar s string = \"ab\"\n\tq, z = z, q\n\ts += \"c\"\n\tr = q*100 + z*10 + len(s)",
		}
		var calls []cCall
		var mainBody strings.Builder
		for i, body := range bodies {
			// the switch-with-init form is outside the supported subset: plain tagless switch instead
			body = strings.Replace(body, "switch x := id(a); {", "x := id(a)\n\tswitch {", 1)
			fmt.Fprintf(&b, "func F%d(a int, b int) int {\n", i)
			pad("v", 1)
			fmt.Fprintf(&b, "\tr := 0\n\t%s\n\treturn r*1000 + (%s)%%1000\n}\n\n", body, padSum("v"))
			fmt.Fprintf(&b, "func W%d(a int, b int) int {\n", i)
			pad("p", 5)
			fmt.Fprintf(&b, "\tr := F%d(a, b)\n\tif %s != %d {\n\t\treturn 777777\n\t}\n\treturn r\n}\n\n", i, padSum("p"), 5*w+w*(w-1)/2)
			for _, ab := range [][2]int{{1, 2}, {3, 4}, {0, 7}} {
				args := []goatlang.Value{goatlang.Int(ab[0]), goatlang.Int(ab[1])}
				calls = append(calls, cCall{Fn: pkg + fmt.Sprintf(".F%d", i), NRet: 1, Args: args}, cCall{Fn: pkg + fmt.Sprintf(".W%d", i), NRet: 1, Args: args})
				fmt.Fprintf(&mainBody, "\tfmt.Println(%d, F%d(%d, %d), W%d(%d, %d))\n", i, i, ab[0], ab[1], i, ab[0], ab[1])
			}
		}
		b.WriteString("func Main() {\n" + mainBody.String() + "}\n")
		items = append(items, cItem{Name: "wide/" + pkg, Files: map[string]string{pkg + "/x.go": b.String()}, Dir: pkg, Calls: calls})
	}
	return items
}
