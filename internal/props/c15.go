package props

import (
	"fmt"
	"go/build/constraint"
	"sort"
	"strings"

	"verif/internal/goat"
	"verif/internal/par"
	"verif/internal/report"
)

// C15 — packages initialise once each, dependencies first, for any import graph.
//
// Explored: EVERY digraph (self-imports included) on n<=4 (quick) / n<=5
// (thorough, without self loops at n=5) labelled packages, every node as the
// root given to Load; plus a configuration product (location, file split,
// poison files) on all graphs with n<=2 (quick) / n<=3 (thorough) and four
// fixed 4-node shapes.  Oracle: an invariant on the marker trace.

var c15names = []string{"a", "b", "c", "d", "e"}

// c15cfg is the per-package file-layout configuration.
type c15cfg struct {
	Loc    int // 0: p/   1: vendor/p/   2: import path example.com/x/p found at x/p/   3: example.com/x/p found at p/  4: both vendor/p (real) and p/ (poison; vendor must win)  5: example.com/org/repo/p found at p/  6: a.io/b/c/lib/p found at lib/p/
	Files  int // 1..3 files, markers spread over them
	Poison int // bitmask: 1 p_test.go, 2 //go:build !goat, 4 //go:build ignore ; 8 adds a //go:build goat file that MUST be included
}

func c15importPath(p string, cfg c15cfg) string {
	switch cfg.Loc {
	case 2, 3:
		return "example.com/x/" + p
	case 5:
		return "example.com/org/repo/" + p // four components, found at p/
	case 6:
		return "a.io/b/c/lib/" + p // five components, found at lib/p/
	}
	return p
}

func c15dir(p string, cfg c15cfg) string {
	switch cfg.Loc {
	case 1, 4:
		return "vendor/" + p
	case 2:
		return "x/" + p
	case 6:
		return "lib/" + p
	}
	return p
}

// c15files renders the file tree for graph adj (adj[i] = bitmask of imports).
func c15files(n int, adj []int, cfgs []c15cfg, root int) (map[string]string, string) {
	files := map[string]string{}
	for i := 0; i < n; i++ {
		p := c15names[i]
		cfg := cfgs[i]
		dir := c15dir(p, cfg)
		var imps []string
		var deps []string
		for j := 0; j < n; j++ {
			if adj[i]>>j&1 == 1 {
				q := c15names[j]
				if cfg.Files == 3 { // the three-file layout spells its import paths as raw string literals
					imps = append(imps, "\t`"+c15importPath(q, cfgs[j])+"`\n")
				} else {
					imps = append(imps, fmt.Sprintf("\t%q\n", c15importPath(q, cfgs[j])))
				}
				deps = append(deps, q+".Ready()")
			}
		}
		depSum := "0"
		if len(deps) > 0 {
			depSum = strings.Join(deps, " + ")
		}
		hdr := func(withFmt, withDeps bool) string {
			s := "package " + p + "\n\nimport (\n"
			if withFmt {
				s += "\t\"fmt\"\n"
			}
			if withDeps {
				s += strings.Join(imps, "")
			}
			return s + ")\n\n"
		}
		// items of the package, spread over files
		itemReady := "var ready = 1\n\nfunc Ready() int { return ready }\n\nfunc mark(s string, n int) int {\n\tfmt.Println(s, n)\n\treturn n\n}\n"
		itemTop := "var top = mark(\"top:" + p + "\", " + depSum + ")\n"
		itemInit := "func init() {\n\tfmt.Println(\"init:" + p + "\", top)\n}\n"
		switch cfg.Files {
		case 1:
			files[dir+"/"+p+".go"] = hdr(true, true) + itemReady + "\n" + itemTop + "\n" + itemInit
		case 2:
			files[dir+"/a_first.go"] = hdr(true, true) + itemTop + "\n" + itemInit
			files[dir+"/z_last.go"] = hdr(true, false) + itemReady
		default:
			files[dir+"/m_mid.go"] = hdr(false, true) + itemTop
			files[dir+"/a_first.go"] = hdr(true, false) + itemInit
			files[dir+"/z_last.go"] = hdr(true, false) + itemReady
		}
		poison := func(name, head string) {
			files[dir+"/"+name] = head + "package " + p + "\n\nimport \"fmt\"\n\nvar poison" + strings.TrimSuffix(strings.ReplaceAll(name, ".", "_"), "_go") + " = fmt.Sprint(\"x\")\n\nfunc init() {\n\tfmt.Println(\"POISON:" + p + ":" + name + "\")\n}\n"
		}
		if cfg.Poison&1 != 0 {
			poison("extra_test.go", "")
		}
		if cfg.Poison&2 != 0 {
			poison("b_notgoat.go", "//go:build !goat\n\n")
		}
		if cfg.Poison&4 != 0 {
			poison("c_ignore.go", "//go:build ignore\n\n")
		}
		if cfg.Poison&8 != 0 {
			files[dir+"/d_goat.go"] = "//go:build goat\n\npackage " + p + "\n\nimport \"fmt\"\n\nvar included = mark(\"goatfile:" + p + "\", 7)\n\nfunc useFmt() string { return fmt.Sprint(included) }\n"
		}
		if cfg.Loc == 4 {
			files[p+"/"+p+".go"] = "package " + p + "\n\nimport \"fmt\"\n\nfunc Ready() int { return 100 }\n\nfunc init() {\n\tfmt.Println(\"POISON:" + p + ":plain-dir-instead-of-vendor\")\n}\n"
		}
	}
	// Load's argument for the root: its import path (Load searches vendor/ and shortened paths)
	return files, c15importPath(c15names[root], cfgs[root])
}

// c15expect: reachable set and whether it is acyclic.
func c15reach(n int, adj []int, root int) (reach int, cyclic bool) {
	reach = 1 << root
	for changed := true; changed; {
		changed = false
		for i := 0; i < n; i++ {
			if reach>>i&1 == 1 && reach|adj[i] != reach {
				reach |= adj[i]
				changed = true
			}
		}
	}
	// cycle detection on the reachable subgraph (Kahn)
	indeg := make([]int, n)
	for i := 0; i < n; i++ {
		if reach>>i&1 == 1 {
			for j := 0; j < n; j++ {
				if adj[i]>>j&1 == 1 {
					indeg[j]++
				}
			}
		}
	}
	left := reach
	for progress := true; progress; {
		progress = false
		for i := 0; i < n; i++ {
			if left>>i&1 == 1 && indeg[i] == 0 {
				left &^= 1 << i
				for j := 0; j < n; j++ {
					if adj[i]>>j&1 == 1 {
						indeg[j]--
					}
				}
				progress = true
			}
		}
	}
	return reach, left != 0
}

// c15check runs one case; returns "" if it satisfies the invariant, else what is wrong.
func c15check(n int, adj []int, cfgs []c15cfg, root int) (problem, got string, files map[string]string, arg string) {
	files, arg = c15files(n, adj, cfgs, root)
	m := goat.New()
	defer m.Close()
	res := m.Load(goat.FS(files), arg)
	got = res.String()
	reach, cyclic := c15reach(n, adj, root)
	if res.HostPanic != nil {
		return "a Go panic escaped Load", got, files, arg
	}
	if res.Budget {
		return "Load did not terminate within the budget", got, files, arg
	}
	if cyclic {
		if res.Err == nil {
			return "import cycle reachable from the root but Load reported success", got, files, arg
		}
		return "", got, files, arg
	}
	if res.Err != nil {
		return "acyclic import graph but Load failed", got, files, arg
	}
	// trace invariant
	lines := strings.Split(strings.TrimSpace(res.Out), "\n")
	posTop := map[string]int{}
	posInit := map[string]int{}
	for k, l := range lines {
		f := strings.Fields(l)
		if len(f) == 0 {
			continue
		}
		tag := f[0]
		switch {
		case strings.HasPrefix(tag, "POISON:"):
			return "a file that must be ignored was loaded: " + l, got, files, arg
		case strings.HasPrefix(tag, "top:"):
			p := tag[4:]
			if _, dup := posTop[p]; dup {
				return "top-level code of " + p + " ran twice", got, files, arg
			}
			posTop[p] = k
			// the number printed is the sum of Ready() of the imports = number of imports
			want := 0
			i := strings.Index("abcde", p)
			for j := 0; j < n; j++ {
				if adj[i]>>j&1 == 1 {
					want++
				}
			}
			if len(f) < 2 || f[1] != fmt.Sprint(want) {
				return fmt.Sprintf("package %s saw uninitialised dependencies (sum %v, want %d)", p, f[1:], want), got, files, arg
			}
		case strings.HasPrefix(tag, "init:"):
			p := tag[5:]
			if _, dup := posInit[p]; dup {
				return "init of " + p + " ran twice", got, files, arg
			}
			posInit[p] = k
		case strings.HasPrefix(tag, "goatfile:"):
		default:
			return "unexpected output line " + l, got, files, arg
		}
	}
	for i := 0; i < n; i++ {
		p := c15names[i]
		_, t := posTop[p]
		_, in := posInit[p]
		if reach>>i&1 == 1 {
			if !t || !in {
				return "reachable package " + p + " was not initialised (top/init marker missing)", got, files, arg
			}
			if cfgs[i].Poison&8 != 0 && !strings.Contains(res.Out, "goatfile:"+p+" 7") {
				return "file with //go:build goat of package " + p + " was not loaded", got, files, arg
			}
			for j := 0; j < n; j++ {
				if adj[i]>>j&1 == 1 {
					q := c15names[j]
					if posTop[q] > posTop[p] || posInit[q] > posTop[p] || posInit[q] > posInit[p] {
						return fmt.Sprintf("package %s ran before its dependency %s finished initialising", p, q), got, files, arg
					}
				}
			}
		} else if t || in {
			return "unreachable package " + p + " was initialised", got, files, arg
		}
	}
	return "", got, files, arg
}

func c15key(n int, adj []int, cfgs []c15cfg, root int) string {
	var p []string
	for i := 0; i < n; i++ {
		var d []string
		for j := 0; j < n; j++ {
			if adj[i]>>j&1 == 1 {
				d = append(d, c15names[j])
			}
		}
		p = append(p, fmt.Sprintf("%s->[%s]%v", c15names[i], strings.Join(d, ","), cfgs[i]))
	}
	return fmt.Sprintf("n=%d root=%s %s", n, c15names[root], strings.Join(p, " "))
}

type c15case struct {
	N    int      `json:"n"`
	Adj  []int    `json:"adj"`
	Cfgs []c15cfg `json:"cfgs"`
	Root int      `json:"root"`
}

func c15run(r *report.Run) {
	r.Rule("every digraph on n labelled packages (incl. self-imports up to n=4) x every root, executed by the real Load; plus location/file-split/poison-file configurations on small graphs; plus file selection: every set of <=2 files (and of 3 files over a reduced (thorough: the full) set of build lines) over 13 file names (a_test.go, b_test.go, test.go, latest.go, x_test.go.go, _skip.go, .hid.go, ...) x 18 constraint lines (13 //go:build lines: goat, !goat, ignore, linux, amd64 and combinations; 5 legacy // +build lines; for six of the names also preceded by line comments and a blank line, for three also by a block comment of one or two lines), as root and as dependency, the set of files that ran compared with the rule of the property; non-trivial = distinct (root, reachable subgraph, configuration) with at least one import edge")
	r.Assume("packages a<b<c<d<e only; graphs larger than the bound are not explored", "order of independent packages is not constrained (the property does not fix it)")
	maxN, maxNself := 4, 4
	cfgN := 2
	if r.Tier == "thorough" {
		maxN, cfgN = 5, 3
	}
	def := c15cfg{Loc: 0, Files: 1}
	type job struct {
		n    int
		adj  []int
		cfgs []c15cfg
	}
	run := func(jobs []job) {
		par.DoChunk(len(jobs), 64, func(k int) {
			if r.Expired() {
				return
			}
			j := jobs[k]
			for root := 0; root < j.n; root++ {
				problem, got, files, arg := c15check(j.n, j.adj, j.cfgs, root)
				r.Eval(1)
				reach, cyc := c15reach(j.n, j.adj, root)
				// canonical reachable-subgraph key
				var sub []string
				edges := 0
				for i := 0; i < j.n; i++ {
					if reach>>i&1 == 1 {
						sub = append(sub, fmt.Sprintf("%d:%d:%v", i, j.adj[i], j.cfgs[i]))
						edges += popcount(j.adj[i])
					}
				}
				if edges > 0 {
					r.Nontrivial(fmt.Sprintf("%d|%s", root, strings.Join(sub, ",")))
				}
				r.Outcome(fmt.Sprintf("cyc=%v|%s", cyc, got))
				if k%4001 == 0 && edges >= 2 {
					r.Sample(map[string]any{"case": c15key(j.n, j.adj, j.cfgs, root), "load_arg": arg, "result": got})
				}
				if problem != "" {
					r.Fail(&report.Case{Kind: "graph", Key: c15key(j.n, j.adj, j.cfgs, root), Files: files,
						Input: c15case{j.n, j.adj, j.cfgs, root}, Want: "invariant: once each, dependencies first, error on cycle", Got: problem + "\n" + got})
				}
			}
		})
	}
	// (1) all digraphs
	for n := 1; n <= maxN; n++ {
		var jobs []job
		bits := n * n
		total := 1 << bits
		for g := 0; g < total; g++ {
			adj := make([]int, n)
			self := false
			for i := 0; i < n; i++ {
				adj[i] = g >> (i * n) & (1<<n - 1)
				if adj[i]>>i&1 == 1 {
					self = true
				}
			}
			if self && n > maxNself {
				continue
			}
			if n == 5 && self {
				continue
			}
			cfgs := make([]c15cfg, n)
			for i := range cfgs {
				cfgs[i] = def
			}
			jobs = append(jobs, job{n, adj, cfgs})
		}
		run(jobs)
		r.Add("graphs", len(jobs))
	}
	// (2) configurations
	var cfgAlphabet []c15cfg
	for loc := 0; loc <= 6; loc++ {
		for files := 1; files <= 3; files++ {
			for _, poison := range []int{0, 1, 2, 4, 8, 15} {
				cfgAlphabet = append(cfgAlphabet, c15cfg{loc, files, poison})
			}
		}
	}
	var jobs []job
	var rec func(n int, adj []int, cfgs []c15cfg, i int)
	rec = func(n int, adj []int, cfgs []c15cfg, i int) {
		if i == n {
			jobs = append(jobs, job{n, append([]int{}, adj...), append([]c15cfg{}, cfgs...)})
			return
		}
		for _, c := range cfgAlphabet {
			cfgs[i] = c
			rec(n, adj, cfgs, i+1)
		}
	}
	for n := 1; n <= cfgN; n++ {
		if n == 3 {
			// thorough: 3 packages, configuration alphabet thinned to location x files (poison 0/15) to stay finite and complete
			var thin []c15cfg
			for _, c := range cfgAlphabet {
				if c.Poison == 0 || c.Poison == 15 {
					thin = append(thin, c)
				}
			}
			save := cfgAlphabet
			cfgAlphabet = thin
			for g := 0; g < 1<<(n*n); g++ {
				adj := make([]int, n)
				ok := true
				for i := 0; i < n; i++ {
					adj[i] = g >> (i * n) & (1<<n - 1)
					if adj[i]>>i&1 == 1 {
						ok = false
					}
				}
				if _, cyc := c15reach(n, adj, 0); !ok || cyc {
					continue
				}
				rec(n, adj, make([]c15cfg, n), 0)
			}
			cfgAlphabet = save
			continue
		}
		for g := 0; g < 1<<(n*n); g++ {
			adj := make([]int, n)
			for i := 0; i < n; i++ {
				adj[i] = g >> (i * n) & (1<<n - 1)
			}
			rec(n, adj, make([]c15cfg, n), 0)
		}
	}
	// fixed 4-node shapes, one package at a time given each configuration (others default)
	shapes := [][]int{
		{0b0010, 0b0100, 0b1000, 0}, // chain a->b->c->d
		{0b0110, 0b1000, 0b1000, 0}, // diamond
		{0b1000, 0b1000, 0b1000, 0}, // fan-in on d (roots a,b,c)
		{0b1110, 0, 0, 0},           // fan-out
		{0, 0b0001, 0b0011, 0b0111}, // reverse-alphabetical chain-ish: d->a,b,c ; c->a,b ; b->a
	}
	for _, sh := range shapes {
		for i := 0; i < 4; i++ {
			for _, c := range cfgAlphabet {
				cfgs := []c15cfg{def, def, def, def}
				cfgs[i] = c
				jobs = append(jobs, job{4, sh, cfgs})
			}
		}
		// and all four at the same non-default configuration
		for _, c := range cfgAlphabet {
			jobs = append(jobs, job{4, sh, []c15cfg{c, c, c, c}})
		}
	}
	run(jobs)
	r.Add("configured_trees", len(jobs))
	// (3) conflicting package clauses => error
	for _, split := range []int{2, 3} {
		files := map[string]string{"a/a.go": "package a\n\nvar x = 1\n", "a/b.go": "package other\n\nvar y = 2\n"}
		if split == 3 {
			files["a/c.go"] = "package a\n\nvar z = 3\n"
		}
		m := goat.New()
		res := m.Load(goat.FS(files), "a")
		m.Close()
		r.Eval(1)
		if res.HostPanic != nil || res.Err == nil {
			keys := make([]string, 0)
			for k := range files {
				keys = append(keys, k)
			}
			sort.Strings(keys)
			r.Fail(&report.Case{Kind: "clash", Key: fmt.Sprintf("conflicting package clauses, %d files", split), Files: files, Want: "error", Got: res.String()})
		}
	}
	// (4) file selection: which files of a directory make up the package
	c15selection(r)
	if r.Expired() {
		r.NotExhaustive("internal deadline reached")
	}
}

// file selection ---------------------------------------------------------------------------
//
// One package s made of base.go plus every set of <=2 files (quick; thorough: <=3) over 11 file names x 13
// //go:build lines, each file printing its own marker from a variable initialiser and from init.  Loaded as the root
// and as a dependency of a root package.  Reference: a file belongs to the package iff its name does not end in
// _test.go and its //go:build line (if any) is true when goat is the only tag set.

var c15selNames = []string{"a.go", "a_test.go", "b_test.go", "c_test.go", "test.go", "latest.go", "contest.go", "z_test.go", "atest.go", "x_test.go.go", "test_a.go", "_skip.go", ".hid.go"}
var c15selBuild = []string{"", "goat", "!goat", "ignore", "linux", "!linux", "amd64", "goat && linux", "goat || linux", "!goat || amd64", "goat && !linux", "!(goat && linux)", "goat && !ignore && !windows", "+ignore", "+goat", "+!goat", "+linux goat", "+linux,goat"} // "+...": a legacy // +build line

type c15selFile struct {
	Name  int `json:"name"`
	Build int `json:"build"`
	Pre   int `json:"pre,omitempty"` // what precedes the constraint line: 1 line comments and a blank line, 2 a block comment, 3 a two-line block comment, a blank line and a line comment
}

type c15selCase struct {
	Files []c15selFile `json:"files"`
	AsDep bool         `json:"as_dep"`
}

// c15selHead is the constraint line of a build kind.
func c15selHead(b int) string {
	if strings.HasPrefix(c15selBuild[b], "+") {
		return "// +build " + c15selBuild[b][1:]
	}
	return "//go:build " + c15selBuild[b]
}

func c15selIncluded(f c15selFile) bool {
	if n := c15selNames[f.Name]; strings.HasSuffix(n, "_test.go") || strings.HasPrefix(n, "_") || strings.HasPrefix(n, ".") {
		return false
	}
	if c15selBuild[f.Build] == "" {
		return true
	}
	x, err := constraint.Parse(c15selHead(f.Build))
	if err != nil {
		panic(err)
	}
	return x.Eval(func(tag string) bool { return tag == "goat" })
}

func c15selRun(c c15selCase) (problem, got string, files map[string]string) {
	files = map[string]string{"s/base.go": "package s\n\nimport \"fmt\"\n\nfunc mark(s string) int {\n\tfmt.Println(s)\n\treturn 1\n}\n\nfunc Ready() int {\n\treturn 1\n}\n"}
	var want []string
	for k, f := range c.Files {
		name := c15selNames[f.Name]
		head := ""
		if c15selBuild[f.Build] != "" {
			head = c15selHead(f.Build) + "\n\n"
		}
		switch f.Pre {
		case 1:
			head = "// Copyright (c) the authors.\n// All rights reserved.\n\n" + head
		case 2:
			head = "/* lic */\n" + head
		case 3:
			head = "/* Copyright (c) the authors.\n   All rights reserved. */\n\n// more\n" + head
		}
		files["s/"+name] = head + fmt.Sprintf("package s\n\nvar v%d = mark(\"var:%s\")\n\nfunc init() {\n\tmark(\"init:%s\")\n}\n", k, name, name)
		if c15selIncluded(f) {
			want = append(want, "init:"+name, "var:"+name)
		}
	}
	sort.Strings(want)
	arg := "s"
	if c.AsDep {
		files["top/top.go"] = "package top\n\nimport \"s\"\n\nvar r = s.Ready()\n"
		arg = "top"
	}
	m := goat.New()
	defer m.Close()
	res := m.Load(goat.FS(files), arg)
	if res.Failed() {
		return "Load failed", res.String(), files
	}
	lines := strings.Fields(res.Out)
	sort.Strings(lines)
	got = strings.Join(lines, " ")
	if got != strings.Join(want, " ") {
		return "the set of files that ran differs: want [" + strings.Join(want, " ") + "]", got, files
	}
	return "", got, files
}

func c15selection(r *report.Run) {
	var all []c15selFile
	for n := range c15selNames {
		for b := range c15selBuild {
			all = append(all, c15selFile{Name: n, Build: b})
			if n < 6 {
				all = append(all, c15selFile{Name: n, Build: b, Pre: 1})
			}
			if n < 2 || n == 5 {
				all = append(all, c15selFile{Name: n, Build: b, Pre: 2}, c15selFile{Name: n, Build: b, Pre: 3})
			}
		}
	}
	var cases []c15selCase
	for i, f := range all {
		cases = append(cases, c15selCase{Files: []c15selFile{f}})
		for _, g := range all[i+1:] {
			if g.Name != f.Name {
				cases = append(cases, c15selCase{Files: []c15selFile{f, g}})
			}
		}
	}
	// three files: every set of three names; quick: over 4 build lines, thorough: over all
	b3 := []int{0, 2, 4, 10}
	if r.Tier == "thorough" {
		b3 = nil
		for b := range c15selBuild {
			b3 = append(b3, b)
		}
	}
	nn := len(c15selNames)
	for x := 0; x < nn; x++ {
		for y := x + 1; y < nn; y++ {
			for z := y + 1; z < nn; z++ {
				for _, bx := range b3 {
					for _, by := range b3 {
						for _, bz := range b3 {
							cases = append(cases, c15selCase{Files: []c15selFile{{Name: x, Build: bx}, {Name: y, Build: by}, {Name: z, Build: bz, Pre: (x + y) % 2}}})
						}
					}
				}
			}
		}
	}
	r.Set("file_selection_cases", 2*len(cases))
	par.DoChunk(len(cases), 64, func(k int) {
		if r.Expired() {
			return
		}
		for _, dep := range []bool{false, true} {
			c := cases[k]
			c.AsDep = dep
			problem, got, files := c15selRun(c)
			r.Eval(1)
			r.Nontrivial(fmt.Sprint("sel", c))
			if problem != "" {
				var d []string
				for _, f := range c.Files {
					d = append(d, fmt.Sprintf("%s [%s]", c15selNames[f.Name], c15selBuild[f.Build]))
				}
				r.Fail(&report.Case{Kind: "selection", Key: fmt.Sprintf("files %s as dependency=%v", strings.Join(d, ", "), dep), Input: c, Files: files, Want: problem, Got: got})
			}
		}
	})
}

func popcount(x int) int {
	n := 0
	for ; x != 0; x &= x - 1 {
		n++
	}
	return n
}

func firstLine(s string) string {
	if i := strings.IndexByte(s, '\n'); i >= 0 {
		return s[:i]
	}
	return s
}

func c15rerun(c *report.Case) (bool, string) {
	if c.Kind == "clash" {
		m := goat.New()
		defer m.Close()
		res := m.Load(goat.FS(c.Files), "a")
		return res.HostPanic != nil || res.Err == nil, res.String()
	}
	if c.Kind == "selection" {
		var in c15selCase
		if !remarshal(c.Input, &in) {
			return false, "bad replay input"
		}
		problem, got, _ := c15selRun(in)
		return problem != "", problem + "\n" + got
	}
	var in c15case
	if !remarshal(c.Input, &in) {
		return false, "bad replay input"
	}
	problem, got, _, _ := c15check(in.N, in.Adj, in.Cfgs, in.Root)
	return problem != "", problem + "\n" + got
}

func init() { register("C15", c15run, c15rerun) }
