package props

import (
	"fmt"
	"sort"
	"strings"

	"verif/internal/goat"
	"verif/internal/oracle"
	"verif/internal/par"
	"verif/internal/report"
)

// C16 — declaration order and file layout inside a package do not matter.
//
// Three base packages built from the dependency shapes that make order matter.
// Items are hoistable (functions, methods, struct/interface types) or ordered
// (constants, variable initialisers, init).  Explored: ALL permutations of the
// hoistable items x ALL interleavings of the ordered items among them in one
// file, and for a fixed stride of those arrangements ALL assignments of the
// items to <=3 files (ordered items monotonically).  Oracle: the output of the
// canonical arrangement, which the Go toolchain also compiles and runs.

type c16item struct {
	src     string
	ordered bool
	fmt     bool     // uses package fmt
	imports []string // further packages the item uses (each file gets one grouped import of what its items need)
}

type c16base struct {
	name  string
	items []c16item // canonical order: hoistable first, then ordered
	noGo  bool      // the output shows struct references, which goatlang renders with field names by design (C14): not compared with the Go toolchain
}

func c16bases(thorough bool) []c16base {
	b1 := c16base{name: "types", items: []c16item{
		{src: "type A struct {\n\tb *B\n\tn int\n}\n"},
		{src: "type B struct {\n\tv int\n}\n"},
		{src: "func (a *A) Sum() int {\n\treturn a.n + a.b.Get() + K\n}\n"},
		{src: "func (b *B) Get() int {\n\treturn b.v\n}\n"},
		{src: "func mk(n int) *A {\n\treturn &A{b: &B{v: helper(n)}, n: n}\n}\n"},
		{src: "func helper(x int) int {\n\treturn x*2 + K\n}\n"},
		{src: "func Main() {\n\tfmt.Println(g, s0, a0.b.Get(), helper(1), K, a0.Sum())\n}\n", fmt: true},
		{src: "const K = 3\n", ordered: true},
		{src: "var a0 = mk(4)\n", ordered: true},
		{src: "var s0 = a0.Sum()\n", ordered: true},
		{src: "var g = s0 + helper(5)\n", ordered: true},
		{src: "func init() {\n\tg += s0 * 100\n}\n", ordered: true},
	}}
	b2 := c16base{name: "functions", items: []c16item{
		{src: "func even(n int) bool {\n\tif n == 0 {\n\t\treturn true\n\t}\n\treturn odd(n - 1)\n}\n"},
		{src: "func odd(n int) bool {\n\tif n == 0 {\n\t\treturn false\n\t}\n\treturn even(n - 1)\n}\n"},
		{src: "func scale(x int) int {\n\treturn x*Big + len(strconv.Itoa(x)) - 1\n}\n", imports: []string{"strconv"}},
		{src: "func count() int {\n\tcalls++\n\treturn calls\n}\n"},
		{src: "func apply(scale int, count int) int {\n\tscale += count\n\todd := scale*2 + len(strings.Repeat(\"!\", count)) + len(strconv.Itoa(count)) - 4\n\treturn odd + count\n}\n", imports: []string{"strconv", "strings"}},
		{src: "func Main() {\n\tfmt.Println(even(4), odd(4), scale(2), first, second, calls, Small, Big, apply(2, 3))\n}\n", fmt: true},
		{src: "const (\n\tSmall = iota + 1\n\tBig\n)\n", ordered: true},
		{src: "var calls int\n", ordered: true},
		{src: "var first = count()\n", ordered: true},
		{src: "var second = count() + scale(first)\n", ordered: true},
		{src: "func init() {\n\tcalls += 10\n}\n", ordered: true},
	}}
	b3 := c16base{name: "interfaces", items: []c16item{
		{src: "type Shape interface {\n\tArea() int\n}\n"},
		{src: "type Sq struct {\n\ts int\n}\n"},
		{src: "type Rect struct {\n\tw int\n\th int\n}\n"},
		{src: "func (q *Sq) Area() int {\n\treturn q.s * q.s\n}\n"},
		{src: "func (r *Rect) Area() int {\n\treturn r.w * r.h\n}\n"},
		{src: "func total(xs []Shape) int {\n\tt := 0\n\tfor _, x := range xs {\n\t\tt += x.Area()\n\t}\n\treturn t\n}\n"},
		{src: "func Main() {\n\tfmt.Println(total(all), len(all), sum)\n}\n", fmt: true},
		{src: "var all = []Shape{&Sq{s: 2}, &Rect{w: 2, h: 3}}\n", ordered: true},
		{src: "var sum = total(all) + 1\n", ordered: true},
		{src: "func init() {\n\tall = append(all, &Sq{s: 1})\n}\n", ordered: true},
	}}
	// function-local declarations named like package-level ones, and the same method name on two types and as a function
	b4 := c16base{name: "locals", items: []c16item{
		{src: "type Meter struct {\n\tn int\n}\n"},
		{src: "type Gauge struct {\n\tn int\n}\n"},
		{src: "func label() string {\n\treturn \"pkg\"\n}\n"},
		{src: "func (m *Meter) Describe() string {\n\ttype label struct {\n\t\ttext string\n\t}\n\tl := &label{text: \"meter\"}\n\treturn l.text\n}\n"},
		{src: "func (g *Gauge) Describe() string {\n\treturn \"gauge-\" + label()\n}\n"},
		{src: "func Describe() string {\n\ttype Gauge struct {\n\t\ts string\n\t}\n\tx := &Gauge{s: \"local\"}\n\treturn x.s + label()\n}\n"},
		{src: "func Main() {\n\tfmt.Println(m.Describe(), g.Describe(), Describe(), g.n)\n}\n", fmt: true},
		{src: "var m = &Meter{n: 1}\n", ordered: true},
		{src: "var g = &Gauge{n: 2}\n", ordered: true},
	}}
	// function literals with same-named local types in variable initialisers (in a multi-file layout two of them can
	// start at the same line and column of different files)
	b5 := c16base{name: "literals", noGo: true, items: []c16item{
		{src: "type K struct {\n\tn int\n}\n"},
		{src: "func (k *K) N() int {\n\treturn k.n\n}\n"},
		{src: "func show() string {\n\treturn fa() + \" \" + fb() + \" \" + fmt.Sprint(k0.N())\n}\n", fmt: true},
		{src: "func Main() {\n\tfmt.Println(show())\n}\n", fmt: true},
		{src: "var fa = func() string {\n\ttype T struct {\n\t\tx int\n\t}\n\tv := &T{x: 1}\n\treturn fmt.Sprint(v)\n}\n", fmt: true, ordered: true},
		{src: "var fb = func() string {\n\ttype T struct {\n\t\ty string\n\t}\n\tv := &T{y: \"b\"}\n\treturn fmt.Sprint(v)\n}\n", fmt: true, ordered: true},
		{src: "var k0 = &K{n: 3}\n", ordered: true},
	}}
	// several func init(), one with a local type and another with a variable of that name; result types named like a
	// parameter or the receiver
	b6 := c16base{name: "inits", items: []c16item{
		{src: "type node struct {\n\tv int\n\tnext *node\n}\n"},
		{src: "type stack struct {\n\titems []int\n}\n"},
		{src: "func push(node *node, v int) *node {\n\tnode.v += v\n\treturn node\n}\n"},
		{src: "func (stack *stack) push(v int) *stack {\n\tstack.items = append(stack.items, v)\n\treturn stack\n}\n"},
		{src: "func Main() {\n\tfmt.Println(table[\"a\"], table[\"b\"], table[\"c\"], table[\"d\"], push(&node{v: 1}, 2).v, len((&stack{}).push(1).push(2).items))\n}\n", fmt: true},
		{src: "var table = map[string]int{}\n", ordered: true},
		{src: "func init() {\n\ttype entry struct {\n\t\tkey string\n\t\tn int\n\t}\n\tfor _, e := range []*entry{{key: \"a\", n: 1}, {key: \"b\", n: 2}} {\n\t\ttable[e.key] = e.n\n\t}\n}\n", ordered: true},
		{src: "func init() {\n\tentry := 7\n\ttable[\"c\"] = entry + 1\n}\n", ordered: true},
		{src: "func init() {\n\ttype entry struct {\n\t\tweight int\n\t}\n\te := &entry{weight: 40}\n\ttable[\"d\"] = e.weight + len(table)\n}\n", ordered: true},
	}}
	if !thorough {
		// quick: 5 hoistable + 3..4 ordered items per package
		b1.items = append(append([]c16item{}, b1.items[0], b1.items[1], b1.items[2], b1.items[3], c16item{src: "func mk(n int) *A {\n\treturn &A{b: &B{v: n * 2}, n: n}\n}\n"}, c16item{src: "func Main() {\n\tfmt.Println(s0, a0.b.Get(), K, a0.Sum())\n}\n", fmt: true}), b1.items[7], b1.items[8], b1.items[9], c16item{src: "func init() {\n\ts0 += 100\n}\n", ordered: true})
		// (all items of the functions package are kept in quick: a parameter named like another top-level function needs them)
		b3.items = append(append([]c16item{}, b3.items[1], b3.items[3], b3.items[0], b3.items[5], c16item{src: "func Main() {\n\tfmt.Println(total(all), len(all), sum)\n}\n", fmt: true}), c16item{src: "var all = []Shape{&Sq{s: 2}, &Sq{s: 3}}\n", ordered: true}, b3.items[8], c16item{src: "func init() {\n\tall = append(all, &Sq{s: 1})\n}\n", ordered: true})
	}
	return []c16base{b1, b2, b3, b4, b5, b6}
}

// an arrangement: order = permutation of item indexes; files[i] = file of the i-th item in that order
type c16arr struct {
	Base     int   `json:"base"`
	Order    []int `json:"order"`
	Files    []int `json:"files"`
	Imported bool  `json:"imported,omitempty"` // loaded as a dependency of a root package instead of as the root
	Names    int   `json:"names,omitempty"`    // which triple of file names (each sorts like 0 < 1 < 2)
}

// none of these names ends in _test.go, so every one of them is part of the package
var c16fileNames = [][]string{{"a_first.go", "m_mid.go", "z_last.go"}, {"contest.go", "latest.go", "test.go"}, {"1.go", "Test.go", "tests.go"}}

func c16render(b c16base, pkg string, a c16arr) map[string]string {
	parts := map[int][]c16item{}
	for i, idx := range a.Order {
		f := 0
		if a.Files != nil {
			f = a.Files[i]
		}
		parts[f] = append(parts[f], b.items[idx])
	}
	out := map[string]string{}
	for f, its := range parts {
		var sb strings.Builder
		sb.WriteString("package " + pkg + "\n\n")
		need := map[string]bool{}
		for _, it := range its {
			if it.fmt {
				need["fmt"] = true
			}
			for _, im := range it.imports {
				need[im] = true
			}
		}
		if len(need) > 0 {
			var ims []string
			for im := range need {
				ims = append(ims, im)
			}
			sort.Strings(ims)
			sb.WriteString("import (\n")
			for _, im := range ims {
				sb.WriteString("\t\"" + im + "\"\n")
			}
			sb.WriteString(")\n\n")
		}
		for _, it := range its {
			sb.WriteString(it.src + "\n")
		}
		out[pkg+"/"+c16fileNames[a.Names%len(c16fileNames)][f]] = sb.String()
	}
	return out
}

func c16runArr(b c16base, a c16arr) string {
	files := c16render(b, "w", a)
	if a.Imported {
		// the package under test is not the root: a root package imports it, from an import path that differs from
		// the package name, and calls its Main
		deep := map[string]string{}
		for k, v := range files {
			deep["lib/"+k] = v
		}
		files = deep
		files["root/root.go"] = "package root\n\nimport \"lib/w\"\n\nfunc Main() {\n\tw.Main()\n}\n"
		res := goat.RunMain(files, "root", "root.Main")
		if res.Failed() {
			return res.String()
		}
		return res.Out
	}
	res := goat.RunMain(files, "w", "w.Main")
	if res.Failed() {
		return res.String()
	}
	return res.Out
}

// all interleavings: positions of the ordered items (kept in their relative order) among the hoistable permutation
func c16orders(b c16base, visit func(order []int)) {
	var hs, os []int
	for i, it := range b.items {
		if it.ordered {
			os = append(os, i)
		} else {
			hs = append(hs, i)
		}
	}
	n := len(b.items)
	perm := append([]int{}, hs...)
	var permute func(k int)
	var place func(order []int, hi, oi int, perm []int)
	place = func(order []int, hi, oi int, perm []int) {
		if len(order) == n {
			visit(append([]int{}, order...))
			return
		}
		if hi < len(perm) {
			place(append(order, perm[hi]), hi+1, oi, perm)
		}
		if oi < len(os) {
			place(append(order, os[oi]), hi, oi+1, perm)
		}
	}
	permute = func(k int) {
		if k == len(perm) {
			place(nil, 0, 0, perm)
			return
		}
		for i := k; i < len(perm); i++ {
			perm[k], perm[i] = perm[i], perm[k]
			permute(k + 1)
			perm[k], perm[i] = perm[i], perm[k]
		}
	}
	permute(0)
}

// all file assignments for an order: hoistable items anywhere in 0..2, ordered items monotonically non-decreasing
func c16assignments(b c16base, order []int, visit func(files []int)) {
	files := make([]int, len(order))
	var rec func(i, minOrdered int)
	rec = func(i, minOrdered int) {
		if i == len(order) {
			visit(append([]int{}, files...))
			return
		}
		lo := 0
		if b.items[order[i]].ordered {
			lo = minOrdered
		}
		for f := lo; f < 3; f++ {
			files[i] = f
			if b.items[order[i]].ordered {
				rec(i+1, f)
			} else {
				rec(i+1, minOrdered)
			}
		}
	}
	rec(0, 0)
}

func c16run(r *report.Run) {
	thorough := r.Tier == "thorough"
	bases := c16bases(thorough)
	multi := 48 // number of single-file arrangements (evenly spread over the enumeration) whose file assignments are all explored
	if thorough {
		multi = 300
	}
	stride := 0
	r.Rule(fmt.Sprintf("[%d evenly spread arrangements per package for the file dimension] five base packages (function literals with same-named local types in variable initialisers; struct types referring to later types with methods declared before them; mutually recursive functions, iota constants and chained initialisers; an interface with two implementations; function-local types named like package-level functions and types inside same-named methods of two types and a function of that name): all permutations of the hoistable items x all interleavings of the ordered items (constants, initialisers, init keep their relative order) in one file, and for %d arrangements per package all assignments of its items to three files with the ordered items assigned monotonically, the files named by three schemes in turn (among them test.go, latest.go, contest.go, Test.go, tests.go: names that merely resemble a test file); non-trivial = arrangement that differs from the canonical one", multi, multi))
	r.Assume("the canonical arrangement (types, methods, functions, constants, variables, init in one file) is the reference; the Go toolchain compiles and runs it and a spread of other arrangements", "ordered items are assigned to files monotonically, so their relative order after the loader's sorted-name concatenation is the source order (the one constraint the property states)")
	cache := oracle.OpenCache("c16")
	defer cache.Save()
	var goProgs []*oracle.Prog
	var goWant []string
	var goArrs []c16arr
	for bi, b := range bases {
		if r.Expired() {
			break
		}
		canonOrder := make([]int, len(b.items))
		for i := range canonOrder {
			canonOrder[i] = i
		}
		want := c16runArr(b, c16arr{Base: bi, Order: canonOrder})
		r.Set("canonical_output_"+b.name, want)
		if strings.HasPrefix(want, "error") || strings.HasPrefix(want, "panic") || want == "" {
			r.Fail(&report.Case{Kind: "canonical", Key: b.name, Input: c16arr{Base: bi, Order: canonOrder}, Want: "the canonical arrangement runs", Got: want})
			continue
		}
		addGo := func(a c16arr) {
			if b.noGo {
				return
			}
			pkg := fmt.Sprintf("z%d_%04d", bi, len(goProgs))
			files := map[string]string{}
			for name, src := range c16render(b, pkg, a) {
				files[strings.TrimPrefix(name, pkg+"/")] = src
			}
			goProgs = append(goProgs, &oracle.Prog{Pkg: pkg, Files: files, Entry: "Main"})
			goWant = append(goWant, want)
			goArrs = append(goArrs, a)
		}
		addGo(c16arr{Base: bi, Order: canonOrder})
		var orders [][]int
		c16orders(b, func(o []int) { orders = append(orders, o) })
		r.Set("single_file_arrangements_"+b.name, len(orders))
		stride = len(orders)/multi + 1
		nMulti := 0
		par.DoChunk(len(orders), 16, func(k int) {
			if r.Expired() {
				return
			}
			a := c16arr{Base: bi, Order: orders[k], Imported: k%16 == 7, Names: k % 3}
			got := c16runArr(b, a)
			r.Eval(1)
			r.Nontrivial(fmt.Sprint(bi, orders[k]))
			if got != want {
				r.Fail(&report.Case{Kind: "order", Key: b.name + " single file, item order " + fmt.Sprint(orders[k]) + "\n" + c16show(b, a), Input: a, Want: want, Got: got})
			}
			if k%stride == stride/2 {
				n := 0
				c16assignments(b, orders[k], func(files []int) {
					a2 := c16arr{Base: bi, Order: orders[k], Files: files, Imported: n%2 == 1, Names: n / 2 % 3}
					g2 := c16runArr(b, a2)
					n++
					if g2 != want {
						r.Fail(&report.Case{Kind: "files", Key: b.name + " order " + fmt.Sprint(orders[k]) + " files " + fmt.Sprint(files) + "\n" + c16show(b, a2), Input: a2, Want: want, Got: g2})
					}
				})
				r.Eval(n)
				r.NontrivialN(n)
				r.Add("multi_file_arrangements", n)
				nMulti += n
			}
			if k%1009 == 17 {
				r.Sample(map[string]any{"package": b.name, "item_order": orders[k], "output": got})
			}
		})
		// a spread of arrangements through the Go toolchain as well
		for k := 0; k < len(orders); k += len(orders)/6 + 1 {
			addGo(c16arr{Base: bi, Order: orders[k]})
			files := make([]int, len(orders[k]))
			f := 0
			for i, idx := range orders[k] {
				if b.items[idx].ordered {
					if f < 2 && i%2 == 0 {
						f++
					}
					files[i] = f
				} else {
					files[i] = (i + k) % 3
				}
			}
			// ordered items must be monotone: enforce
			m := 0
			for i, idx := range orders[k] {
				if b.items[idx].ordered {
					if files[i] < m {
						files[i] = m
					}
					m = files[i]
				}
			}
			addGo(c16arr{Base: bi, Order: orders[k], Files: files})
		}
	}
	validated := 0
	gres, err := cache.Run(goProgs)
	if err != nil {
		r.HarnessError("Go oracle: %v", err)
	} else {
		for k, gr := range gres {
			if gr.BuildErr != "" {
				r.HarnessError("arrangement rejected by the Go toolchain: %s", gr.BuildErr)
			} else if gr.Out != goWant[k] && !gr.Panicked {
				// the oracle of this check is the Go toolchain's output for the arrangement: goatlang disagrees with it
				r.Fail(&report.Case{Kind: "go", Key: "arrangement " + goProgs[k].Pkg + " (output of the Go toolchain vs goatlang's for the canonical arrangement)\n" + c16show(c16bases(r.Tier == "thorough")[goArrs[k].Base], goArrs[k]), Input: goArrs[k], Want: gr.Out, Got: goWant[k]})
			} else if gr.Panicked {
				r.HarnessError("the Go toolchain prints %q for an arrangement of which goatlang's canonical output is %q (%s)", gr.Out, goWant[k], goProgs[k].Pkg)
			} else {
				validated++
			}
		}
	}
	r.Set("traces_validated_against_impl", validated)
	if r.Expired() {
		r.NotExhaustive("internal deadline reached")
	}
}

func c16show(b c16base, a c16arr) string {
	files := c16render(b, "w", a)
	var names []string
	for n := range files {
		names = append(names, n)
	}
	sort.Strings(names)
	var sb strings.Builder
	for _, n := range names {
		sb.WriteString("--- " + n + "\n" + files[n])
	}
	return sb.String()
}

func c16rerun(c *report.Case) (bool, string) {
	var a c16arr
	if !remarshal(c.Input, &a) {
		return false, "bad input"
	}
	for _, thorough := range []bool{false, true} {
		bases := c16bases(thorough)
		if a.Base >= len(bases) || len(a.Order) != len(bases[a.Base].items) {
			continue
		}
		got := c16runArr(bases[a.Base], a)
		if c.Kind == "canonical" {
			return strings.HasPrefix(got, "error") || strings.HasPrefix(got, "panic") || got == "", got
		}
		return got != c.Want, got
	}
	return false, "arrangement does not match a base package"
}

func init() { register("C16", c16run, c16rerun) }
