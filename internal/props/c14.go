package props

import (
	"bufio"
	"bytes"
	"fmt"
	"math"
	"os"
	"os/exec"
	"reflect"
	"runtime/debug"
	"sort"
	"strconv"
	"strings"
	"sync/atomic"

	"github.com/philhassey/goatlang"

	"verif/internal/goat"
	"verif/internal/par"
	"verif/internal/report"
)

// C14 — printed values look as Go prints them, and printing always terminates.
//
// Space: scalars (all 8-bit integers, 32-bit boundaries, ~5k floats covering
// every %v regime, strings), ALL container shapes of depth <=3 over a typed
// leaf pool (slices of length 0..2, nil slices, single-entry and nil maps of
// four key kinds), chains to depth 5, Println with 1..4 operands, struct
// references with scalar fields; each rendered through Value.String() on a
// host-built value, println, fmt.Println, fmt.Print and fmt.Sprint.  Oracle:
// fmt.Sprint / Sprintln / %+v on the equivalent native Go value.
// Termination: all object graphs on <=3 nodes (struct / []any / map[string]any)
// with every assignment of every reference slot, printed in child processes.

type c14v struct {
	typ   string // Go type
	lit   string // Go expression ("nil" for a nil container)
	isNil bool
	rv    reflect.Value
	gt    goatlang.Type
	host  func() goatlang.Value // nil if not constructible from the host (top-level typed nil)
	depth int
}

func c14sliceT(e goatlang.Type) goatlang.Type { return e<<8 | goatlang.TypeSlice }
func c14mapT(k, v goatlang.Type) goatlang.Type {
	return v<<16 | k<<8 | goatlang.TypeMap
}

func c14leaves() map[string][]c14v {
	mk := func(typ, lit string, x any, gt goatlang.Type, h goatlang.Value) c14v {
		return c14v{typ: typ, lit: lit, rv: reflect.ValueOf(x), gt: gt, host: func() goatlang.Value { return h }}
	}
	return map[string][]c14v{
		"int":     {mk("int", "7", int(7), goatlang.TypeInt32, goatlang.Int(7)), mk("int", "-3", int(-3), goatlang.TypeInt32, goatlang.Int(-3))},
		"string":  {mk("string", `"a b"`, "a b", goatlang.TypeString, goatlang.String("a b")), mk("string", `""`, "", goatlang.TypeString, goatlang.String(""))},
		"float64": {mk("float64", "0.5", 0.5, goatlang.TypeFloat64, goatlang.Float64(0.5)), mk("float64", "1e+21", 1e21, goatlang.TypeFloat64, goatlang.Float64(1e21))},
		"bool":    {mk("bool", "true", true, goatlang.TypeBool, goatlang.Bool(true)), mk("bool", "false", false, goatlang.TypeBool, goatlang.Bool(false))},
		"uint8":   {mk("uint8", "200", uint8(200), goatlang.TypeUint8, goatlang.Uint8(200)), mk("uint8", "0", uint8(0), goatlang.TypeUint8, goatlang.Uint8(0))},
	}
}

type c14key struct {
	typ string
	lit string
	x   any
	gt  goatlang.Type
	h   goatlang.Value
}

var c14keys = []c14key{
	{"string", `"k"`, "k", goatlang.TypeString, goatlang.String("k")},
	{"int", "4", int(4), goatlang.TypeInt32, goatlang.Int(4)},
	{"float64", "2.5", 2.5, goatlang.TypeFloat64, goatlang.Float64(2.5)},
	{"bool", "true", true, goatlang.TypeBool, goatlang.Bool(true)},
}

// c14wrap builds all containers one level above the given values of ONE element type.
func c14wrap(elems []c14v, full bool) [][]c14v {
	e0 := elems[0]
	et := e0.rv.Type()
	var out [][]c14v
	// slices
	st := reflect.SliceOf(et)
	sv := func(isNil bool, xs ...c14v) c14v {
		typ := "[]" + e0.typ
		v := c14v{typ: typ, gt: c14sliceT(e0.gt), depth: e0.depth + 1, isNil: isNil}
		if isNil {
			v.lit = "nil"
			v.rv = reflect.Zero(st)
			return v
		}
		var lits []string
		rv := reflect.MakeSlice(st, 0, len(xs))
		for _, x := range xs {
			lits = append(lits, x.elided())
			rv = reflect.Append(rv, x.rv)
		}
		v.lit = typ + "{" + strings.Join(lits, ", ") + "}"
		v.rv = rv
		xs2 := append([]c14v{}, xs...)
		v.host = func() goatlang.Value {
			d := make([]goatlang.Value, len(xs2))
			for i, x := range xs2 {
				if x.host == nil {
					d[i] = goatlang.Nil()
				} else {
					d[i] = x.host()
				}
			}
			return goatlang.NewSlice(e0.gt, d)
		}
		return v
	}
	var sl []c14v
	sl = append(sl, sv(true), sv(false))
	for i, x := range elems {
		sl = append(sl, sv(false, x))
		if i+1 < len(elems) && (full || i < 3) {
			sl = append(sl, sv(false, x, elems[i+1]))
		}
	}
	if len(elems) > 1 {
		sl = append(sl, sv(false, elems[len(elems)-1], elems[0]))
	}
	out = append(out, sl)
	// single-entry maps
	for _, k := range c14keys {
		k := k
		// goatlang packs a map type into 16 bits per level of an int: four nested map levels do not fit.
		// That is a genuine limit (recorded as known finding C14-map-depth-4); the enumeration keeps map
		// nesting <= 3 levels except for one witness family (string keys all the way down over int).
		if lv := strings.Count(e0.typ, "map["); lv >= 3 && !(k.typ == "string" && e0.typ == "map[string]map[string]map[string]int") {
			continue
		}
		mt := reflect.MapOf(reflect.TypeOf(k.x), et)
		typ := "map[" + k.typ + "]" + e0.typ
		var ml []c14v
		ml = append(ml, c14v{typ: typ, lit: "nil", isNil: true, rv: reflect.Zero(mt), gt: c14mapT(k.gt, e0.gt), depth: e0.depth + 1})
		empty := c14v{typ: typ, lit: typ + "{}", rv: reflect.MakeMap(mt), gt: c14mapT(k.gt, e0.gt), depth: e0.depth + 1}
		empty.host = func() goatlang.Value { return goatlang.NewMap(k.gt, e0.gt, nil) }
		ml = append(ml, empty)
		for _, x := range elems {
			x := x
			rv := reflect.MakeMap(mt)
			rv.SetMapIndex(reflect.ValueOf(k.x), x.rv)
			v := c14v{typ: typ, lit: typ + "{" + k.lit + ": " + x.elided() + "}", rv: rv, gt: c14mapT(k.gt, e0.gt), depth: e0.depth + 1}
			v.host = func() goatlang.Value {
				hv := goatlang.Nil()
				if x.host != nil {
					hv = x.host()
				}
				return goatlang.NewMap(k.gt, e0.gt, []goatlang.Value{k.h, hv})
			}
			ml = append(ml, v)
		}
		out = append(out, ml)
	}
	return out
}

// elided: the literal as an element of an enclosing composite literal (Go allows the type to be elided)
func (v c14v) elided() string {
	if v.isNil {
		return "nil"
	}
	if v.depth > 0 {
		return v.lit[len(v.typ):]
	}
	return v.lit
}

// c14containers: every container value of depth 1..maxDepth, grouped by type.
func c14containers(maxDepth int, full bool) []c14v {
	if maxDepth > 3 {
		full = false // depth 4: pairs thinned as in the non-full enumeration (still complete over singletons)
	}
	var all []c14v
	level := [][]c14v{}
	for _, name := range []string{"int", "string", "float64", "bool", "uint8"} {
		level = append(level, c14leaves()[name])
	}
	for d := 1; d <= maxDepth; d++ {
		var next [][]c14v
		for _, group := range level {
			g := group
			if !full && d == 3 && len(g) > 4 {
				g = g[:4]
			}
			for _, ng := range c14wrap(g, full) {
				next = append(next, ng)
				all = append(all, ng...)
			}
		}
		level = next
	}
	return all
}

func c14floats() []float64 {
	var out []float64
	for _, m := range []float64{1, 1.5, 9.999999999999999, 1.2345678901234567} {
		for e := -330; e <= 310; e++ {
			f := m * math.Pow(10, float64(e))
			out = append(out, f, -f)
		}
	}
	out = append(out, 0, math.Copysign(0, -1), math.Inf(1), math.Inf(-1), math.NaN(), math.MaxFloat64, math.SmallestNonzeroFloat64)
	for _, c := range []float64{1e-5, 1e-4, 1e20, 1e21, 1 << 53, 100000, 123456789} {
		out = append(out, c, math.Nextafter(c, 0), math.Nextafter(c, math.Inf(1)))
	}
	return out
}

// the five renderings of a host value bound to the global main.x
const c14script = "import \"fmt\"\nprintln(x)\nfmt.Println(x)\nfmt.Print(x)\nfmt.Print(\"|\")\nfmt.Print(fmt.Sprint(x))\nfmt.Print(\"|\")\n"

func c14viaGlobal(m *goat.M, imports map[string]string, v goatlang.Value) (str, out string) {
	func() {
		defer func() {
			if p := recover(); p != nil {
				str = fmt.Sprintf("HOST PANIC %v", p)
			}
		}()
		str = v.String()
	}()
	m.VM.Set("main.x", v)
	r := m.Eval(nil, c14script, goatlang.WithEvalImports(imports))
	if r.Failed() {
		return str, "FAILED " + r.String()
	}
	return str, r.Out
}

func c14expectScript(want string) string {
	return want + "\n" + want + "\n" + want + "|" + want + "|"
}

type c14case struct {
	Kind string `json:"kind"`
	Src  string `json:"src,omitempty"`
	Bits uint64 `json:"bits,omitempty"`
	Int  int64  `json:"int,omitempty"`
	Typ  string `json:"typ,omitempty"`
}

func c14scalarValue(typ string, bits uint64, i int64) (goatlang.Value, string) {
	switch typ {
	case "float64":
		f := math.Float64frombits(bits)
		return goatlang.Float64(f), fmt.Sprint(f)
	case "int8":
		return goatlang.Int8(int8(i)), fmt.Sprint(int8(i))
	case "uint8":
		return goatlang.Uint8(uint8(i)), fmt.Sprint(uint8(i))
	case "int32":
		return goatlang.Int32(int32(i)), fmt.Sprint(int32(i))
	case "uint32":
		return goatlang.Uint32(uint32(i)), fmt.Sprint(uint32(i))
	case "bool":
		return goatlang.Bool(i != 0), fmt.Sprint(i != 0)
	}
	return goatlang.Nil(), "?"
}

func c14containerProgram(v c14v) string {
	var b strings.Builder
	b.WriteString("import \"fmt\"\n")
	if v.isNil {
		b.WriteString("var x " + v.typ + "\n")
	} else {
		b.WriteString("x := " + v.lit + "\n")
	}
	b.WriteString("println(x)\nfmt.Println(x)\nfmt.Print(x)\nfmt.Print(\"|\")\nfmt.Print(fmt.Sprint(x))\nfmt.Print(\"|\")\n")
	return b.String()
}

func c14evalOut(src string) string {
	m := goat.New()
	defer m.Close()
	r := m.Eval(nil, src)
	if r.Failed() {
		return "FAILED " + r.String()
	}
	return r.Out
}

func c14run(r *report.Run) {
	thorough := r.Tier == "thorough"
	r.Rule("scalars: bool, all 256 int8/uint8, 32-bit boundary sets, ~5k floats (4 mantissas x 10^-330..10^310, both signs, +-0, Inf, NaN, max, denormal, neighbours of the %v thresholds), strings; containers: every value of depth <=3 over 5 typed leaf pairs built from slices (nil, empty, 1, 2 elements) and nil/empty/single-entry maps of 4 key kinds, linear chains to depth 5, every slice/map chain of depth 4 and 5 that fits the type encoding; Println with 1..4 operands of every kind combination; struct references with 0..4 scalar fields; each through Value.String, println, fmt.Println, fmt.Print, fmt.Sprint; values with a past (maps of four key kinds emptied to 0 or 1 entry by every order of deletes, on their own / in a slice / as a struct field; re-sliced and appended slices; struct types declared again with 0, 1, 2, 4 and 10 more fields); cyclic graphs on <=3 nodes printed in child processes; non-trivial = distinct rendered value other than a plain small integer")
	r.Assume("fmt.Sprint / Sprintln / %+v on the equivalent native value is the oracle; `println` is judged on goatlang's own terms (same text as fmt.Println on stdout)", "multi-entry maps are excluded (iteration order), as in the property")
	// ---- scalars through a host value bound to a global
	type sc struct {
		typ  string
		bits uint64
		i    int64
	}
	var scs []sc
	for i := -128; i <= 127; i++ {
		scs = append(scs, sc{"int8", 0, int64(i)})
	}
	for i := 0; i <= 255; i++ {
		scs = append(scs, sc{"uint8", 0, int64(i)})
	}
	for _, f := range c4values(c4i32) {
		scs = append(scs, sc{"int32", 0, int64(f)})
	}
	for _, f := range c4values(c4u32) {
		scs = append(scs, sc{"uint32", 0, int64(f)})
	}
	scs = append(scs, sc{"bool", 0, 0}, sc{"bool", 0, 1})
	for _, f := range c14floats() {
		scs = append(scs, sc{"float64", math.Float64bits(f), 0})
	}
	par.DoChunk(len(scs), 64, func(k int) {
		m := goat.New()
		defer m.Close()
		imports := map[string]string{}
		s := scs[k]
		v, want := c14scalarValue(s.typ, s.bits, s.i)
		str, out := c14viaGlobal(m, imports, v)
		r.Eval(5)
		r.Nontrivial(s.typ + want)
		r.Outcome(want)
		if str != want || out != c14expectScript(want) {
			r.Fail(&report.Case{Kind: "scalar", Key: s.typ + " " + want, Input: c14case{Kind: "scalar", Typ: s.typ, Bits: s.bits, Int: s.i}, Want: want + " / " + c14expectScript(want), Got: str + " / " + out})
		}
	})
	// typed declarations in script: the printed text must be that of the declared type
	for _, d := range [][2]string{{"var x uint32 = 4000000000", "4000000000"}, {"var x int8 = -128", "-128"}, {"var x uint8 = 255", "255"}, {"x := uint32(4294967295)", "4294967295"}, {"var x float64 = 3", "3"}, {"x := 1e21", "1e+21"}, {"x := 1e20", "1e+20"}, {"x := 0.000001", "1e-06"}, {"x := 100000.0", "100000"}, {"x := -0.5", "-0.5"}} {
		src := "import \"fmt\"\n" + d[0] + "\nprintln(x)\nfmt.Println(x)\nfmt.Print(x)\nfmt.Print(\"|\")\nfmt.Print(fmt.Sprint(x))\nfmt.Print(\"|\")\n"
		got := c14evalOut(src)
		r.Eval(1)
		if got != c14expectScript(d[1]) {
			r.Fail(&report.Case{Kind: "program", Key: src, Input: c14case{Kind: "program", Src: src}, Want: c14expectScript(d[1]), Got: got})
		}
	}
	// ---- strings
	strs := append(c13strings(2), "a b", " lead", "trail ", "[1 2]", "map[a:1]", "line1\nline2", "&{A:1}", "nil", "<nil>", "%d %v")
	par.DoChunk(len(strs), 8, func(k int) {
		m := goat.New()
		defer m.Close()
		s := strs[k]
		str, out := c14viaGlobal(m, map[string]string{}, goatlang.String(s))
		r.Eval(5)
		r.Nontrivial("string" + s)
		if str != s || out != c14expectScript(s) {
			r.Fail(&report.Case{Kind: "string", Key: strconv.Quote(s), Input: c14case{Kind: "string", Src: s}, Want: s, Got: str + " / " + out})
		}
	})
	// ---- containers
	depth := 3
	if thorough {
		depth = 4
	}
	conts := c14containers(depth, true)
	// linear chains to depth 5
	chain := c14leaves()["int"]
	for d := 1; d <= 5; d++ {
		w := c14wrap(chain[:1], false)
		pick := w[0][2:3] // the one-element slice
		if d%2 == 0 {
			pick = w[1][2:3] // single-entry string-keyed map
		}
		chain = pick
		if d > depth {
			conts = append(conts, pick...)
		}
	}
	// every chain of depth 4 and 5 over {one-element slice, single-entry string-keyed map} whose type fits goatlang's type
	// encoding (one byte per slice level, two per map level, one for the leaf, eight in all; the types beyond that are the
	// open finding C14-map-depth-4)
	for d := 4; d <= 5; d++ {
		for mask := 0; mask < 1<<d; mask++ {
			maps := 0
			for b := 0; b < d; b++ {
				maps += mask >> b & 1
			}
			if d+maps+1 > 8 {
				continue
			}
			cur := c14leaves()["int"][:1]
			for b := 0; b < d; b++ {
				w := c14wrap(cur, false)
				if mask>>b&1 == 1 {
					cur = w[1][2:3]
				} else {
					cur = w[0][2:3]
				}
			}
			conts = append(conts, cur...)
		}
	}
	r.Set("container_values", len(conts))
	par.DoChunk(len(conts), 32, func(k int) {
		if r.Expired() {
			return
		}
		v := conts[k]
		want := fmt.Sprint(v.rv.Interface())
		src := c14containerProgram(v)
		got := c14evalOut(src)
		r.Eval(4)
		r.Nontrivial(v.typ + want)
		r.Outcome(want)
		if got != c14expectScript(want) {
			r.Fail(&report.Case{Kind: "container-script", Key: v.typ + " " + v.lit, Input: c14case{Kind: "program", Src: src}, Want: c14expectScript(want), Got: got})
		}
		if v.host != nil {
			var hs string
			func() {
				defer func() {
					if p := recover(); p != nil {
						hs = fmt.Sprintf("HOST PANIC %v", p)
					}
				}()
				hs = v.host().String()
			}()
			r.Eval(1)
			if hs != want {
				r.Fail(&report.Case{Kind: "container-host", Key: v.typ + " " + v.lit, Input: c14case{Kind: "host", Typ: v.typ, Src: v.lit}, Want: want, Got: hs})
			}
		}
		if k%1777 == 5 {
			r.Sample(map[string]any{"type": v.typ, "literal": v.lit, "go_prints": want, "goatlang_prints": got})
		}
	})
	// ---- Println with 1..4 operands of every kind combination
	ops := []struct {
		lit string
		x   any
	}{{"7", 7}, {`"s t"`, "s t"}, {"0.5", 0.5}, {"true", true}, {"[]int{1, 2}", []int{1, 2}}, {`map[string]int{"k": 1}`, map[string]int{"k": 1}}, {`""`, ""}, {"uint8(200)", uint8(200)}}
	var combos [][]int
	var crec func(cur []int)
	crec = func(cur []int) {
		if len(cur) > 0 {
			combos = append(combos, append([]int{}, cur...))
		}
		if len(cur) == 4 {
			return
		}
		for i := range ops {
			crec(append(cur, i))
		}
	}
	crec(nil)
	par.DoChunk(len(combos), 64, func(k int) {
		var lits []string
		var xs []any
		for _, i := range combos[k] {
			lits = append(lits, ops[i].lit)
			xs = append(xs, ops[i].x)
		}
		want := fmt.Sprintln(xs...)
		src := "import \"fmt\"\nfmt.Println(" + strings.Join(lits, ", ") + ")\nprintln(" + strings.Join(lits, ", ") + ")\n"
		got := c14evalOut(src)
		r.Eval(2)
		r.Nontrivial(src)
		if got != want+want {
			r.Fail(&report.Case{Kind: "println", Key: src, Input: c14case{Kind: "program", Src: src}, Want: want + want, Got: got})
		}
	})
	// ---- struct references: declaration order != alphabetical order, scalar fields
	type fld struct {
		name, typ, lit string
		x              any
	}
	flds := []fld{{"B", "int", "1", 1}, {"A", "string", `"x y"`, "x y"}, {"D", "float64", "2.5", 2.5}, {"C", "bool", "true", true}}
	for n := 0; n <= 4; n++ {
		for rot := 0; rot < 4; rot++ {
			for set := 0; set < 1<<n; set++ {
				var decl, init, want []string
				for i := 0; i < n; i++ {
					f := flds[(i+rot)%4]
					decl = append(decl, "\t"+f.name+" "+f.typ+"\n")
					val := fmt.Sprint(reflect.Zero(reflect.TypeOf(f.x)).Interface())
					if set>>i&1 == 1 {
						init = append(init, f.name+": "+f.lit)
						val = fmt.Sprint(f.x)
					}
					want = append(want, f.name+":"+val)
				}
				w := "&{" + strings.Join(want, " ") + "}"
				src := "import \"fmt\"\ntype P struct {\n" + strings.Join(decl, "") + "}\nx := &P{" + strings.Join(init, ", ") + "}\nprintln(x)\nfmt.Println(x)\nfmt.Print(x)\nfmt.Print(\"|\")\nfmt.Print(fmt.Sprint(x))\nfmt.Print(\"|\")\n"
				got := c14evalOut(src)
				r.Eval(4)
				r.Nontrivial(src)
				if got != c14expectScript(w) {
					r.Fail(&report.Case{Kind: "struct", Key: src, Input: c14case{Kind: "program", Src: src}, Want: c14expectScript(w), Got: got})
				}
			}
		}
	}
	// ---- values with a past: a rendering shows the value as it is now, whatever happened to it before
	c14past(r)
	// ---- termination on cyclic graphs (child processes)
	c14cyclic(r, thorough)
	if r.Expired() {
		r.NotExhaustive("internal deadline reached")
	}
}

// values with a past ------------------------------------------------------------------
//
// (1) maps of four key kinds filled with 2..3 entries and emptied again to 0 or 1 entry by every choice and order of
// deletes (also deleted and re-inserted), printed on their own, inside a slice and as a struct field; (2) slices after
// append / re-slice / element stores; (3) struct references of a type that was declared again (same fields, or one more)
// in a later Eval chunk, and instances created before and after that.

func c14past(r *report.Run) {
	type kk struct {
		typ  string
		lits []string
		show []string
	}
	kinds := []kk{{"string", []string{`"a"`, `"b"`, `"c"`}, []string{"a", "b", "c"}}, {"int", []string{"1", "2", "3"}, []string{"1", "2", "3"}}, {"float64", []string{"0.5", "1.0", "2.5"}, []string{"0.5", "1", "2.5"}}, {"bool", []string{"true", "false"}, []string{"true", "false"}}}
	run := func(kind, src, want string) {
		got := c14evalOut(src)
		r.Eval(4)
		r.Nontrivial(src)
		if got != want {
			r.Fail(&report.Case{Kind: kind, Key: src, Input: c14case{Kind: "program", Src: src}, Want: want, Got: got})
		}
	}
	tail := "println(x)\nfmt.Println(x)\nfmt.Print(x)\nfmt.Print(\"|\")\nfmt.Print(fmt.Sprint(x))\nfmt.Print(\"|\")\n"
	for _, k := range kinds {
		n := len(k.lits)
		// every ordered sequence of distinct deletes that leaves at most one entry, optionally re-inserting the first deleted key
		var perms func(cur []int, used int)
		var seqs [][]int
		perms = func(cur []int, used int) {
			if n-len(cur) <= 1 {
				seqs = append(seqs, append([]int{}, cur...))
			}
			for i := 0; i < n; i++ {
				if used>>i&1 == 0 {
					perms(append(cur, i), used|1<<i)
				}
			}
		}
		perms(nil, 0)
		for _, sq := range seqs {
			for _, reinsert := range []bool{false, true} {
				if reinsert && len(sq) != n {
					continue // re-insert only into the emptied map: the result still has a single entry
				}
				var b strings.Builder
				b.WriteString("import \"fmt\"\ntype Q struct {\n\tM map[" + k.typ + "]int\n}\nm := map[" + k.typ + "]int{")
				for i, l := range k.lits {
					if i > 0 {
						b.WriteString(", ")
					}
					fmt.Fprintf(&b, "%s: %d", l, i+1)
				}
				b.WriteString("}\n")
				live := map[int]int{}
				for i := range k.lits {
					live[i] = i + 1
				}
				for _, d := range sq {
					fmt.Fprintf(&b, "delete(m, %s)\n", k.lits[d])
					delete(live, d)
				}
				if reinsert {
					fmt.Fprintf(&b, "m[%s] = 9\n", k.lits[sq[0]])
					live[sq[0]] = 9
				}
				w := "map[]"
				for i, v := range live {
					w = fmt.Sprintf("map[%s:%d]", k.show[i], v)
				}
				for _, form := range [][2]string{{"x := m\n", w}, {"x := []map[" + k.typ + "]int{m, m}\n", "[" + w + " " + w + "]"}, {"x := &Q{M: m}\n", "&{M:" + w + "}"}} {
					run("past-map", b.String()+form[0]+tail, c14expectScript(form[1]))
				}
			}
		}
	}
	// slices with a past
	for _, c := range [][2]string{
		{"s := []int{1, 2, 3}\ns = s[:1]\nx := s\n", "[1]"},
		{"s := []int{1, 2, 3}\nt := s[1:2]\nt = append(t, 9)\nx := s\n", "[1 2 9]"},
		{"s := make([]int, 2)\ns = append(s, 5)\nx := s[1:]\n", "[0 5]"},
		{"var s []string\ns = append(s, \"a b\")\ns = append(s, \"\")\nx := s\n", "[a b ]"},
		{"s := [][]int{{1}, {2, 3}}\ns[0] = s[1][:1]\ns[1] = nil\nx := s\n", "[[2] []]"},
		{"s := []byte(\"hi\")\ns[0]++\nx := s\n", "[105 105]"},
	} {
		run("past-slice", "import \"fmt\"\n"+c[0]+tail, c14expectScript(c[1]))
	}
	// struct types declared again
	decl := "type P struct {\n\tB int\n\tA string\n\tT []int\n}\n"
	// (several added fields: their order must be the declaration's, on every run: goatlang walked a Go map here, so
	// each such variant is run 16 times on fresh VMs; Go randomizes the walk per map, not per process)
	type c14added struct{ decl, zero string }
	addable := []c14added{{"C float64", " C:0"}, {"D bool", " D:false"}, {"E string", " E:"}, {"F int", " F:0"}, {"G int", " G:0"}, {"H int", " H:0"}, {"I int", " I:0"}, {"J int", " J:0"}, {"K int", " K:0"}, {"L int", " L:0"}}
	type c14again struct {
		src, extra string
		reps       int
	}
	agains := []c14again{{decl, "", 1}}
	for _, n := range []int{1, 2, 4, 10} {
		a := c14again{src: strings.TrimSuffix(decl, "}\n"), reps: 16}
		if n == 1 {
			a.reps = 1
		}
		for _, f := range addable[:n] {
			a.src += "\t" + f.decl + "\n"
			a.extra += f.zero
		}
		a.src += "}\n"
		agains = append(agains, a)
	}
	for _, ag := range agains {
		for _, mode := range []string{"Eval", "Load"} {
			for rep := 0; rep < ag.reps; rep++ {
				again, extra := ag.src, ag.extra
				m := goat.New()
				imports := map[string]string{}
				var r1, r2, r3 goat.Result
				// (how an instance created before a field was added renders is not fixed by the property: it is only printed
				// when the declaration is repeated unchanged)
				use := "x := &P{B: 2, A: \"m\"}\nprintln(x)\nfmt.Println(x)\nfmt.Print(fmt.Sprint(old))\n"
				want := "&{B:2 A:m T:[]" + extra + "}\n&{B:2 A:m T:[]" + extra + "}\n&{B:1 A:o T:[7]}"
				if again != decl {
					use = strings.Replace(use, "fmt.Print(fmt.Sprint(old))", "fmt.Print(len(fmt.Sprint(old)) > 0)", 1)
					want = "&{B:2 A:m T:[]" + extra + "}\n&{B:2 A:m T:[]" + extra + "}\ntrue"
				}
				if mode == "Eval" {
					r1 = m.Eval(nil, "import \"fmt\"\n"+decl+"old := &P{B: 1, A: \"o\", T: []int{7}}\n", goatlang.WithEvalImports(imports))
					r2 = m.Eval(nil, again, goatlang.WithEvalImports(imports))
					m.Out.Reset()
					r3 = m.Eval(nil, use, goatlang.WithEvalImports(imports))
				} else {
					pkg := func(d string) map[string]string {
						return map[string]string{"q/q.go": "package q\n\nimport \"fmt\"\n\n" + d + "\nvar old = &P{B: 1, A: \"o\", T: []int{7}}\n\nfunc Use() {\n\t" + strings.ReplaceAll(strings.TrimSpace(use), "\n", "\n\t") + "\n}\n"}
					}
					r1 = m.Load(goat.FS(pkg(decl)), "q")
					// state is kept across a reload only where the declaration is not run again; here `old` is rebuilt by the reload
					r2 = m.Load(goat.FS(pkg(again)), "q")
					m.Out.Reset()
					r3 = m.Call("q.Use", 0)
				}
				got := m.Out.String()
				if r1.Failed() || r2.Failed() || r3.Failed() {
					got = "first: " + r1.String() + "; again: " + r2.String() + "; use: " + r3.String()
				}
				m.Close()
				r.Eval(3)
				key := "struct type declared again (" + mode + "):\n" + decl + "... then ...\n" + again + use
				r.Nontrivial(key)
				if got != want {
					r.Fail(&report.Case{Kind: "past-struct", Key: key, Want: want, Got: got})
					break
				}
			}
		}
	}
}

// cyclic graphs ----------------------------------------------------------------------

// a graph: kinds[i] in {S,A,M}; slots: S has 2, A has 2, M has 1; each slot -1 (nil) or a node index
type c14graph struct {
	Kinds string `json:"kinds"`
	Slots []int  `json:"slots"`
}

func c14slotsOf(k byte) int {
	if k == 'M' || k == 'm' {
		return 1
	}
	return 2
}

// lower-case kinds are containers with a declared element type; putting another node into one is ill-typed, but
// goatlang does not type-check assignments, so the printer meets such graphs (a run-time error at the assignment
// is an acceptable outcome for them, a printer that does not return is not)
func c14typedGraph(g c14graph) bool { return strings.ToUpper(g.Kinds) != g.Kinds }

func c14graphProgram(g c14graph) string {
	var b strings.Builder
	b.WriteString("import \"fmt\"\ntype N struct {\n\tL any\n\tR any\n}\ntype P struct {\n\tL [][]int\n\tR map[string][]int\n}\n")
	for i := 0; i < len(g.Kinds); i++ {
		switch g.Kinds[i] {
		case 'S':
			fmt.Fprintf(&b, "n%d := &N{}\n", i)
		case 'A':
			fmt.Fprintf(&b, "n%d := []any{nil, nil}\n", i)
		case 'M':
			fmt.Fprintf(&b, "n%d := map[string]any{\"k\": nil}\n", i)
		case 's':
			fmt.Fprintf(&b, "n%d := &P{}\n", i)
		case 'a':
			fmt.Fprintf(&b, "n%d := [][]int{nil, nil}\n", i)
		case 't':
			fmt.Fprintf(&b, "n%d := [][][]int{nil, nil}\n", i)
		case 'q':
			fmt.Fprintf(&b, "n%d := []map[string][]int{nil, nil}\n", i)
		case 'm':
			fmt.Fprintf(&b, "n%d := map[string][]int{\"k\": nil}\n", i)
		}
	}
	// every node is printed before the first assignment and again after each one (a printer must not carry state from
	// one rendering to the next); slices are written through an alias (a sub-slice header over the same array)
	printAll := func() {
		for i := 0; i < len(g.Kinds); i++ {
			fmt.Fprintf(&b, "fmt.Println(len(fmt.Sprint(n%d)) > 0)\nprintln(n%d)\n", i, i)
		}
	}
	for i := 0; i < len(g.Kinds); i++ {
		if strings.IndexByte("Aatq", g.Kinds[i]) >= 0 {
			fmt.Fprintf(&b, "alias%d := n%d[0:2]\n", i, i)
		}
	}
	printAll()
	s := 0
	for i := 0; i < len(g.Kinds); i++ {
		for j := 0; j < c14slotsOf(g.Kinds[i]); j++ {
			t := g.Slots[s]
			s++
			if t < 0 {
				continue
			}
			switch g.Kinds[i] {
			case 'S', 's':
				fmt.Fprintf(&b, "n%d.%s = n%d\n", i, []string{"L", "R"}[j], t)
			case 'A', 'a', 't', 'q':
				fmt.Fprintf(&b, "alias%d[%d] = n%d\n", i, j, t)
			case 'M', 'm':
				fmt.Fprintf(&b, "n%d[\"k\"] = n%d\n", i, t)
			}
			printAll()
		}
	}
	for i := 0; i < len(g.Kinds); i++ {
		if strings.IndexByte("Aatq", g.Kinds[i]) >= 0 {
			fmt.Fprintf(&b, "_ = alias%d\n", i)
		}
	}
	return b.String()
}

func c14graphs(thorough bool) []c14graph {
	var out []c14graph
	var kinds []string
	for n := 1; n <= 3; n++ {
		var rec func(cur string)
		rec = func(cur string) {
			if len(cur) == n {
				if n == 3 && !thorough && !(cur == "SSS" || cur == "AAA" || cur == "MMM" || cur == "SAM" || cur == "MAS" || cur == "ASA") {
					return
				}
				kinds = append(kinds, cur)
				return
			}
			for _, k := range "SAM" {
				rec(cur + string(k))
			}
		}
		rec("")
	}
	// graphs with typed containers: all of <=2 nodes over the 8 kinds (those without a typed node are above already),
	// and chosen triples
	all := "SAMsatqm"
	for i := 0; i < len(all); i++ {
		if i >= 3 {
			kinds = append(kinds, all[i:i+1])
		}
		for j := 0; j < len(all); j++ {
			if i >= 3 || j >= 3 {
				kinds = append(kinds, all[i:i+1]+all[j:j+1])
			}
		}
	}
	kinds = append(kinds, "atm", "saM", "qmA")
	if thorough {
		kinds = append(kinds, "aaa", "tat", "mqs", "Sam", "Atq", "aSa", "mmA", "tMs")
	}
	for _, ks := range kinds {
		ns := 0
		for i := 0; i < len(ks); i++ {
			ns += c14slotsOf(ks[i])
		}
		n := len(ks)
		total := 1
		for i := 0; i < ns; i++ {
			total *= n + 1
		}
		for x := 0; x < total; x++ {
			slots := make([]int, ns)
			y := x
			for i := range slots {
				slots[i] = y%(n+1) - 1
				y /= n + 1
			}
			out = append(out, c14graph{ks, slots})
		}
	}
	return out
}

// C14Child is the child-process entry point: reads graph indexes from stdin, prints "idx ok" per graph that printed.
func C14Child(thorough bool) {
	debug.SetMaxStack(16 << 20) // unbounded recursion in a printer must die quickly
	gs := c14graphs(thorough)
	sc := bufio.NewScanner(os.Stdin)
	w := bufio.NewWriter(os.Stdout)
	defer w.Flush()
	for sc.Scan() {
		idx, err := strconv.Atoi(strings.TrimSpace(sc.Text()))
		if err != nil || idx < 0 || idx >= len(gs) {
			continue
		}
		m := goat.New()
		m.Ctx.MaxSteps = 0
		res := m.Eval(nil, c14graphProgram(gs[idx]))
		m.Close()
		st := "ok"
		if c14typedGraph(gs[idx]) && res.Err != nil && res.HostPanic == nil {
			st = "ok" // an ill-typed store may be refused
		} else if res.Failed() {
			st = "failed:" + strings.ReplaceAll(firstLine(res.String()+fmt.Sprint(res.Err)), " ", "_")
		} else {
			rounds := 1
			for _, t := range gs[idx].Slots {
				if t >= 0 {
					rounds++
				}
			}
			if strings.Count(res.Out, "true\n") != rounds*len(gs[idx].Kinds) {
				st = "badoutput"
			}
		}
		fmt.Fprintf(w, "%d %s\n", idx, st)
		w.Flush()
	}
}

func c14runChild(thorough bool, idxs []int) (map[int]string, error) {
	tier := "quick"
	if thorough {
		tier = "thorough"
	}
	cmd := exec.Command(os.Args[0], "child", "C14", tier)
	var in bytes.Buffer
	for _, i := range idxs {
		fmt.Fprintln(&in, i)
	}
	cmd.Stdin = &in
	cmd.Env = append(os.Environ(), "GOTRACEBACK=none")
	var out bytes.Buffer
	cmd.Stdout = &out
	err := cmd.Run()
	res := map[int]string{}
	for _, l := range strings.Split(out.String(), "\n") {
		f := strings.Fields(l)
		if len(f) == 2 {
			i, _ := strconv.Atoi(f[0])
			res[i] = f[1]
		}
	}
	return res, err
}

func c14cyclic(r *report.Run, thorough bool) {
	gs := c14graphs(thorough)
	r.Set("object_graphs", len(gs))
	// hand out in batches; a batch whose child dies is bisected until the culprit is isolated
	var batches [][]int
	for s := 0; s < len(gs); s += 500 {
		e := s + 500
		if e > len(gs) {
			e = len(gs)
		}
		b := make([]int, 0, e-s)
		for i := s; i < e; i++ {
			b = append(b, i)
		}
		batches = append(batches, b)
	}
	var crashes int32
	var handle func(b []int)
	handle = func(b []int) {
		if atomic.LoadInt32(&crashes) >= 12 {
			r.NotExhaustive("stopped after 12 crashing object graphs (each is a violation)")
			return
		}
		res, err := c14runChild(thorough, b)
		missing := []int{}
		for _, i := range b {
			st, ok := res[i]
			if !ok {
				missing = append(missing, i)
				continue
			}
			r.Eval(1)
			cyc := c14isCyclic(gs[i])
			if cyc {
				r.Nontrivial(fmt.Sprint(gs[i]))
			}
			if st != "ok" {
				r.Fail(&report.Case{Kind: "graph", Key: c14graphProgram(gs[i]), Input: c14case{Kind: "program", Src: c14graphProgram(gs[i])}, Want: "printing returns a string", Got: st})
			}
		}
		if len(missing) == 0 {
			return
		}
		if len(missing) == 1 || (err != nil && len(b) == 1) {
			i := missing[0]
			r.Eval(1)
			atomic.AddInt32(&crashes, 1)
			r.Fail(&report.Case{Kind: "graph-crash", Key: c14graphProgram(gs[i]), Input: c14case{Kind: "graphcrash", Int: int64(i), Typ: r.Tier}, Want: "printing terminates", Got: fmt.Sprintf("child process died or stalled (%v)", err)})
			if len(missing) > 1 {
				handle(missing[1:])
			}
			return
		}
		// the child died at the first missing index: isolate it, continue with the rest
		first := missing[0]
		handle([]int{first})
		handle(missing[1:])
	}
	par.Do(len(batches), func(k int) { handle(batches[k]) })
}

func c14isCyclic(g c14graph) bool {
	n := len(g.Kinds)
	adj := make([][]int, n)
	s := 0
	for i := 0; i < n; i++ {
		for j := 0; j < c14slotsOf(g.Kinds[i]); j++ {
			if g.Slots[s] >= 0 {
				adj[i] = append(adj[i], g.Slots[s])
			}
			s++
		}
	}
	state := make([]int, n)
	var dfs func(i int) bool
	dfs = func(i int) bool {
		state[i] = 1
		for _, j := range adj[i] {
			if state[j] == 1 || (state[j] == 0 && dfs(j)) {
				return true
			}
		}
		state[i] = 2
		return false
	}
	for i := 0; i < n; i++ {
		if state[i] == 0 && dfs(i) {
			return true
		}
	}
	return false
}

func c14rerun(c *report.Case) (bool, string) {
	if c.Kind == "past-struct" {
		rr := report.New("C14", "quick")
		c14past(rr)
		return rr.Violations() > 0, fmt.Sprintf("%d failing cases in the values-with-a-past family", rr.Violations())
	}
	var in c14case
	if !remarshal(c.Input, &in) {
		return false, "bad input"
	}
	switch in.Kind {
	case "program":
		if c.Kind == "graph" {
			res, _ := c14runChildProgram(in.Src)
			return res != "ok", res
		}
		got := c14evalOut(in.Src)
		return got != c.Want, got
	case "scalar":
		m := goat.New()
		defer m.Close()
		v, want := c14scalarValue(in.Typ, in.Bits, in.Int)
		str, out := c14viaGlobal(m, map[string]string{}, v)
		return str != want || out != c14expectScript(want), str + " / " + out
	case "string":
		m := goat.New()
		defer m.Close()
		str, out := c14viaGlobal(m, map[string]string{}, goatlang.String(in.Src))
		return str != in.Src || out != c14expectScript(in.Src), str + " / " + out
	case "host":
		for _, full := range []bool{false, true} {
			for _, v := range c14containers(3, full) {
				if v.typ == in.Typ && v.lit == in.Src && v.host != nil {
					got := v.host().String()
					return got != c.Want, got
				}
			}
		}
		return false, "value not found"
	case "graphcrash":
		res, err := c14runChild(in.Typ == "thorough", []int{int(in.Int)})
		_, ok := res[int(in.Int)]
		return !ok, fmt.Sprint(res, err)
	}
	return false, "unknown kind"
}

// c14runChildProgram is only used by replay of non-crashing graph failures (in-process is safe there).
func c14runChildProgram(src string) (string, error) {
	out := c14evalOut(src)
	if strings.HasPrefix(out, "FAILED") {
		return out, nil
	}
	return "ok", nil
}

var _ = sort.Strings

func init() { register("C14", c14run, c14rerun) }
