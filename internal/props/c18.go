package props

import (
	"fmt"
	"strings"

	"github.com/philhassey/goatlang"

	"verif/internal/goat"
	"verif/internal/par"
	"verif/internal/report"
)

// C18 — incremental evaluation equals whole-program evaluation.
//
// Space: all sequences of <=5 (6) top-level statements from a template
// alphabet that pass a def-before-use filter, x ALL 2^(n-1) ways of cutting
// the sequence into consecutive chunks fed to one VM through successive Eval
// calls sharing one WithEvalImports map.  Oracle: the same text evaluated in
// one call on a fresh VM (pure differential).

type c18tpl struct {
	src    string
	needs  []string
	gives  []string
	final  bool // an expression: only allowed as the last statement
	block  bool // contains a block statement (locals in the top-level frame)
	redefF bool
}

var c18tpls = []c18tpl{
	{src: `import "fmt"`, gives: []string{"fmt"}},
	{src: `x := 3`, gives: []string{"x"}},
	{src: `var y int`, gives: []string{"y"}},
	{src: `var z = x + 4`, needs: []string{"x"}, gives: []string{"z"}},
	{src: `const c = 5`, gives: []string{"c"}},
	{src: `x = x*2 + 1`, needs: []string{"x"}},
	{src: `y++`, needs: []string{"y"}},
	{src: "if x > 4 {\n\ty = 7\n} else {\n\ty = 8\n}", needs: []string{"x", "y"}, block: true},
	{src: "for i := 0; i < 2; i++ {\n\ty += i + 1\n}", needs: []string{"y"}, block: true},
	{src: "switch {\ncase x > 3:\n\ty += 10\ndefault:\n\ty += 20\n}", needs: []string{"x", "y"}, block: true},
	{src: "func f(a int) int {\n\treturn a + x\n}", needs: []string{"x"}, gives: []string{"f"}},
	{src: "func f(a int) int {\n\treturn a*2 + x\n}", needs: []string{"x", "f"}, redefF: true},
	{src: "type T struct {\n\tn int\n}", gives: []string{"T"}},
	{src: "func (t *T) M() int {\n\treturn t.n + 1\n}", needs: []string{"T"}, gives: []string{"M"}},
	{src: `t := &T{n: 6}`, needs: []string{"T"}, gives: []string{"t"}},
	// a method whose body declares a local type named like a package variable (what follows the method must still see the variable)
	{src: "func (t *T) L() int {\n\ttype x struct {\n\t\tq int\n\t}\n\tw := &x{q: 2}\n\treturn w.q\n}", needs: []string{"T"}, gives: []string{"L"}},
	{src: `fmt.Println(x, y)`, needs: []string{"fmt", "x", "y"}},
	{src: `x = f(x)`, needs: []string{"f", "x"}},
	{src: `s := []int{1, 2}`, gives: []string{"s"}},
	{src: `s = append(s, x)`, needs: []string{"s", "x"}},
	{src: "for _, v := range s {\n\tx += v\n}", needs: []string{"s", "x"}, block: true},
	{src: `t.n = t.M() + x`, needs: []string{"t", "M", "x"}},
	// nested declaring blocks next to a global of the same name as the loop variable
	{src: `i := 100`, gives: []string{"i"}},
	{src: "for i := 0; i < 3; i++ {\n\tif i > 0 {\n\t\tw := i * 2\n\t\ty += w\n\t}\n}", needs: []string{"y"}, block: true},
	{src: "if x > 0 {\n\tx := 1\n\tif x > 0 {\n\t\tx := 2\n\t\ty += x\n\t}\n\ty += x\n}", needs: []string{"x", "y"}, block: true},
	{src: `y += i`, needs: []string{"y", "i"}},
	// script packages with state: a later chunk that imports ext loads util a second time
	{src: `import "util"`, gives: []string{"util"}},
	{src: `import "ext"`, gives: []string{"ext"}},
	{src: `util.Set(x)`, needs: []string{"util", "x"}},
	{src: `util.Base += x`, needs: []string{"util", "x"}},
	{src: `ext.Bump()`, needs: []string{"ext"}},
	{src: `util.Count() + ext.Twice(2) + util.Base + util.Inits*1000`, needs: []string{"util", "ext"}, final: true},
	// block-scoped top-level locals of other types than int (a later chunk's frame must not inherit them)
	{src: "if f := 1.5; f > 1 {\n\ty += 1\n}", needs: []string{"y"}, block: true},
	{src: "for j := 0; j < 4; j++ {\n\ty += j / 2\n}", needs: []string{"y"}, block: true},
	{src: "for _, w := range []string{\"ab\"} {\n\tk := len(w) / 3\n\ty += k + 1\n}", needs: []string{"y"}, block: true},
	// a struct type of a package that a later chunk loads again
	{src: `fmt.Println(util.New(x), util.New(1).X)`, needs: []string{"fmt", "util", "x"}},
	// a declaration whose last token is a closing parenthesis (a chunk may end right there, without a newline)
	{src: `var cb func(int)`, gives: []string{"cb"}},
	{src: `x + y`, needs: []string{"x", "y"}, final: true},
	{src: `f(2) + c`, needs: []string{"f", "c"}, final: true},
	{src: `t.M()`, needs: []string{"t", "M"}, final: true},
	{src: `len(s) + z`, needs: []string{"s", "z"}, final: true},
}

var c18globals = []string{"x", "y", "z", "c", "s", "i"}

var c18files = map[string]string{
	"util/util.go": "package util\n\nvar last any\nvar count int\n\nvar Base = 10\nvar Inits int\n\nfunc init() {\n\tInits++\n}\n\nfunc Set(v int) {\n\tlast = v\n\tcount++\n}\n\nfunc Last() any {\n\treturn last\n}\n\nfunc Count() int {\n\treturn count\n}\n\ntype P struct {\n\tX int\n\tY int\n}\n\nfunc New(a int) *P {\n\treturn &P{X: a, Y: a + 1}\n}\n",
	"ext/ext.go":   "package ext\n\nimport \"util\"\n\nfunc Bump() {\n\tutil.Set(99)\n}\n\nfunc Twice(a int) int {\n\treturn a * 2\n}\n",
}

var c18fs = goat.FS(c18files)

// c18valid applies the def-before-use filter.
func c18valid(seq []int) bool {
	def := map[string]bool{}
	for i, k := range seq {
		t := c18tpls[k]
		if t.final && i != len(seq)-1 {
			return false
		}
		for _, n := range t.needs {
			if !def[n] {
				return false
			}
		}
		for _, g := range t.gives {
			if def[g] && g != "f" {
				return false // a second := / var / type of the same name is a redeclaration error in Go
			}
			def[g] = true
		}
	}
	return true
}

type c18obs struct {
	status string
	out    string
	rets   string
	globs  string
}

func (o c18obs) String() string {
	return fmt.Sprintf("status=%s stdout=%q returned=%s globals=%s", o.status, o.out, o.rets, o.globs)
}

func c18observe(m *goat.M, last goat.Result, out string, failed bool) c18obs {
	o := c18obs{status: "ok", out: out}
	if failed {
		o.status = "failed: " + firstLine(fmt.Sprint(last.Err)) + fmt.Sprint(last.HostPanic)
		return o
	}
	var p []string
	for _, v := range last.Rets {
		p = append(p, v.String()+":"+m.TypeOf(v))
	}
	o.rets = strings.Join(p, ",")
	var g []string
	for _, n := range c18globals {
		v := m.VM.Get("main." + n)
		g = append(g, n+"="+v.String()+":"+m.TypeOf(v))
	}
	if t := m.VM.Get("main.t"); !t.IsNil() {
		g = append(g, "t="+t.String())
	}
	for _, n := range []string{"util.last", "util.count"} {
		v := m.VM.Get(n)
		g = append(g, n+"="+v.String()+":"+m.TypeOf(v))
	}
	o.globs = strings.Join(g, " ")
	return o
}

// c18eval feeds the chunks to one VM.
func c18eval(chunks []string) c18obs {
	m := goat.New()
	defer m.Close()
	imports := map[string]string{}
	var last goat.Result
	out := ""
	for _, c := range chunks {
		last = m.Eval(c18fs, c, goatlang.WithEvalImports(imports))
		out += last.Out
		if last.Failed() {
			return c18observe(m, last, out, true)
		}
	}
	return c18observe(m, last, out, false)
}

func c18chunks(seq []int, cut int) []string {
	var chunks []string
	cur := c18tpls[seq[0]].src
	// a chunk ends with a newline or right after its last token, in turn (the whole program always ends with a newline)
	end := func() string {
		if (len(chunks)+cut)%2 == 0 {
			return "\n"
		}
		return ""
	}
	for i := 1; i < len(seq); i++ {
		if cut>>(i-1)&1 == 1 {
			chunks = append(chunks, cur+end())
			cur = c18tpls[seq[i]].src
		} else {
			cur += "\n" + c18tpls[seq[i]].src
		}
	}
	return append(chunks, cur+end())
}

type c18case struct {
	Seq []int `json:"seq"`
	Cut int   `json:"cut"`
}

func c18run(r *report.Run) {
	maxLen := 5
	if r.Tier == "thorough" {
		maxLen = 6
	}
	r.Rule(fmt.Sprintf("all sequences of <=%d top-level statements over %d templates (imports, :=, var, const, assignments, ++, if/for/switch/range blocks, function and method definitions and a redefinition, type, struct literal, calls, four final expressions) that pass the def-before-use filter, x all 2^(n-1) chunkings; non-trivial = chunking with >=2 chunks of a sequence that defines and later uses a name across a cut", maxLen, len(c18tpls)))
	r.Assume("the one-call evaluation of the same text on a fresh VM is the reference (differential, no expected values)", "sequences that the def-before-use filter accepts must also evaluate successfully as a whole")
	nt := len(c18tpls)
	var seqs [][]int
	var rec func(cur []int)
	rec = func(cur []int) {
		if len(cur) > 0 && c18valid(cur) {
			seqs = append(seqs, append([]int{}, cur...))
		}
		if len(cur) == maxLen {
			return
		}
		// prune: a prefix that already violates the filter (other than a misplaced final) cannot be extended
		if len(cur) > 0 && !c18valid(cur) && !c18tpls[cur[len(cur)-1]].final {
			return
		}
		if len(cur) > 0 && c18tpls[cur[len(cur)-1]].final {
			return
		}
		for k := 0; k < nt; k++ {
			rec(append(cur, k))
		}
	}
	rec(nil)
	r.Set("valid_sequences", len(seqs))
	par.DoChunk(len(seqs), 64, func(i int) {
		if r.Expired() {
			return
		}
		seq := seqs[i]
		whole := c18eval(c18chunks(seq, 0))
		r.Eval(1)
		if whole.status != "ok" {
			r.Fail(&report.Case{Kind: "whole", Key: strings.Join(c18chunks(seq, 0), ""), Input: c18case{seq, 0}, Want: "a program that defines every name before it uses it evaluates successfully", Got: whole.String()})
			return
		}
		r.Outcome(whole.String())
		for cut := 1; cut < 1<<(len(seq)-1); cut++ {
			chunks := c18chunks(seq, cut)
			got := c18eval(chunks)
			r.Eval(1)
			r.Nontrivial(fmt.Sprint(seq, cut))
			if got != whole {
				r.Fail(&report.Case{Kind: "chunked", Key: strings.Join(chunks, "-----cut-----\n"), Input: c18case{seq, cut}, Want: whole.String(), Got: got.String()})
			}
		}
		if i%4999 == 17 && len(seq) == maxLen {
			r.Sample(map[string]any{"program": strings.Join(c18chunks(seq, 0), ""), "chunkings": 1 << (len(seq) - 1), "observation": whole.String()})
		}
	})
	c18many(r)
	if r.Expired() {
		r.NotExhaustive("internal deadline reached")
	}
}

// c18many: programs of N identical top-level loops (block-scoped slots of a compile unit add up: the whole program
// uses N times the slots of one statement, a chunk only its own), N at and across 42/43 (128 slots) and 85/86 (256),
// evaluated at once, one statement per Eval, and in two halves.
func c18many(r *report.Run) {
	for _, n := range []int{1, 2, 41, 42, 43, 44, 45, 64, 84, 85, 86, 87, 128, 200} {
		for _, loop := range []string{"for _, v := range s {\n\tt += v\n}", "for k, v := range s {\n\tt += k + v\n}", "for i := 0; i < 2; i++ {\n\tw := i + 1\n\tt += w\n}"} {
			stmts := []string{"s := []int{1, 2, 3}", "t := 0"}
			for i := 0; i < n; i++ {
				stmts = append(stmts, loop)
			}
			stmts = append(stmts, "t")
			join := func(ss []string) string { return strings.Join(ss, "\n") + "\n" }
			whole := c18eval([]string{join(stmts)})
			var single []string
			for _, st := range stmts {
				single = append(single, st+"\n")
			}
			half := len(stmts) / 2
			for name, chunks := range map[string][]string{"one statement per Eval": single, "two halves": {join(stmts[:half]), join(stmts[half:])}} {
				got := c18eval(chunks)
				r.Eval(1)
				key := fmt.Sprintf("%d copies of the top-level loop %q, %s", n, loop, name)
				r.Nontrivial(key)
				if whole.status != "ok" || got != whole {
					r.Fail(&report.Case{Kind: "many", Key: key, Want: "whole program: " + whole.String(), Got: got.String()})
				}
			}
		}
	}
}

func c18rerun(c *report.Case) (bool, string) {
	if c.Kind == "many" {
		rr := report.New("C18", "quick")
		c18many(rr)
		return rr.Violations() > 0, fmt.Sprintf("%d failing cases in the many-loops family", rr.Violations())
	}
	var in c18case
	if !remarshal(c.Input, &in) {
		return false, "bad input"
	}
	whole := c18eval(c18chunks(in.Seq, 0))
	if c.Kind == "whole" {
		return whole.status != "ok", whole.String()
	}
	got := c18eval(c18chunks(in.Seq, in.Cut))
	return got != whole, got.String()
}

func init() { register("C18", c18run, c18rerun) }
