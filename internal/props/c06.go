package props

import (
	"fmt"
	"regexp"
	"strings"

	"github.com/philhassey/goatlang"

	"verif/internal/goat"
	"verif/internal/oracle"
	"verif/internal/par"
	"verif/internal/report"
)

// C06 — break, continue and return always reach the target Go specifies.
//
// Space: ALL programs of a control-flow mini language with <= N statement
// nodes (quick 5, thorough 6).  Oracle: a structured reference interpreter,
// itself validated against the Go toolchain on the complete <=4-node layer
// (and, thorough, on every 25th program of the 5-node layer).

type c6kind int

const (
	c6trace c6kind = iota
	c6break
	c6continue
	c6return
	c6if       // if c {A}
	c6ifelse   // if c {A} else {B}
	c6ifelseif // if c {A} else if c2 {B} else {C}
	c6for3     // for i := 0; i < 2; i++ {A}
	c6forcond  // for n < 6 {A}
	c6forever  // for {A}
	c6range    // for _, v := range two {A}
	c6rangeSel // for _, v := range sel() {A}: sel() is two when n is even and nil when n is odd
	c6swTag    // switch n % 3 { case 0: A [case 1: B] [default: D] }
	c6swBool   // switch { case c: A [case c2: B] [default: D] }
)

type c6stmt struct {
	kind   c6kind
	c1, c2 int         // condition indexes
	blocks [][]*c6stmt // A, B, C / cases..., default last if hasDef
	nCases int
	hasDef bool
	defPos int  // position of default among the clauses in source order (0..nCases)
	list   bool // the single case clause lists two values: case 0, 1: / case c1, c2:
	size   int
}

var c6conds = []string{"true", "n%2 == 0", "n < 3"}

// Flavors: the same program with its constants spelled through local variables
// (p=1, q=2, z=0), so that expressions end in LOCALGET,LOCALGET,op windows that the
// peephole optimizer fuses -- inside fragments whose lengths were already used
// for jump offsets.  Semantics (and therefore the reference trace) are identical.
type c6flavor struct {
	conds      []string
	for3, forc string
	tag        string
	cases      []string
	prologue   string
}

var c6flavors = []c6flavor{
	{[]string{"true", "n%2 == 0", "n < 3"}, "i < 2", "n < 6", "n % 3", []string{"0", "1"}, ""},
	{[]string{"p+z == p+z", "n%q == z+z", "n < p+q"}, "i < p+p", "n < q+q+q", "n % (p + q)", []string{"z + z", "z + p"}, "\tp, q, z := 1, 2, 0\n\t_, _, _ = p, q, z\n"},
	{[]string{"q-p == p", "n%q == p-p", "n < q*q-p"}, "i < q/p", "n < q*q+q", "n % (q*q - p)", []string{"p - p", "q - p"}, "\tp, q, z := 1, 2, 0\n\t_, _, _ = p, q, z\n"},
}

var c6forCondRe = regexp.MustCompile(`(?m)^(\s*)for ([^;{]+) \{$`)
var c6for3Re = regexp.MustCompile(`(?m)^(\s*)for i := 0; [^;{]+; i\+\+ \{$`)
var c6forEverRe = regexp.MustCompile(`(?m)^(\s*)for \{$`)

// c6emptyParts respells the loops that have only a condition, or nothing, as three-part clauses with empty parts.
func c6emptyParts(body string) string {
	body = c6forCondRe.ReplaceAllStringFunc(body, func(l string) string {
		if strings.Contains(l, "range") {
			return l
		}
		return c6forCondRe.ReplaceAllString(l, "${1}for ; $2; {")
	})
	return c6forEverRe.ReplaceAllString(body, "${1}for ; ; {")
}

type c6ctx struct{ inLoop, inSwitch bool }

type c6gen struct {
	stmts  map[string][]*c6stmt
	blocks map[string][][]*c6stmt
	narrow bool // the sub-language that goes one node deeper: if / if-else on two conditions, range, tagless switch with one case and an optional default
}

func (g *c6gen) key(size int, c c6ctx) string {
	return fmt.Sprintf("%d/%v/%v", size, c.inLoop, c.inSwitch)
}

// allBlocks: every block of 1..2 statements with exactly `size` nodes in total.
func (g *c6gen) allBlocks(size int, c c6ctx) [][]*c6stmt {
	k := g.key(size, c)
	if b, ok := g.blocks[k]; ok {
		return b
	}
	var out [][]*c6stmt
	for _, s := range g.allStmts(size, c) {
		out = append(out, []*c6stmt{s})
	}
	for a := 1; a < size; a++ {
		for _, s1 := range g.allStmts(a, c) {
			for _, s2 := range g.allStmts(size-a, c) {
				out = append(out, []*c6stmt{s1, s2})
			}
		}
	}
	g.blocks[k] = out
	return out
}

// allStmts: every statement with exactly `size` nodes.
func (g *c6gen) allStmts(size int, c c6ctx) []*c6stmt {
	k := g.key(size, c)
	if s, ok := g.stmts[k]; ok {
		return s
	}
	var out []*c6stmt
	if size == 1 {
		out = append(out, &c6stmt{kind: c6trace, size: 1})
		if c.inLoop || c.inSwitch {
			out = append(out, &c6stmt{kind: c6break, size: 1})
		}
		if c.inLoop {
			out = append(out, &c6stmt{kind: c6continue, size: 1})
		}
		out = append(out, &c6stmt{kind: c6return, size: 1})
		g.stmts[k] = out
		return out
	}
	rest := size - 1
	loop := c6ctx{inLoop: true, inSwitch: false}
	sw := c6ctx{inLoop: c.inLoop, inSwitch: true}
	// split rest into k ordered positive parts
	var splits func(n, parts int) [][]int
	splits = func(n, parts int) [][]int {
		if parts == 1 {
			if n >= 1 {
				return [][]int{{n}}
			}
			return nil
		}
		var o [][]int
		for a := 1; a <= n-(parts-1); a++ {
			for _, t := range splits(n-a, parts-1) {
				o = append(o, append([]int{a}, t...))
			}
		}
		return o
	}
	emptyClauses := false
	prod := func(sizes []int, ctxs []c6ctx, f func([][]*c6stmt)) {
		cur := make([][]*c6stmt, len(sizes))
		var rec func(i int)
		rec = func(i int) {
			if i == len(sizes) {
				f(append([][]*c6stmt{}, cur...))
				return
			}
			for _, b := range g.allBlocks(sizes[i], ctxs[i]) {
				cur[i] = b
				rec(i + 1)
			}
			if emptyClauses && sizes[i] == 1 {
				cur[i] = []*c6stmt{} // an empty clause body counts as one node
				rec(i + 1)
			}
		}
		rec(0)
	}
	// if
	for ci := range c6conds {
		ci := ci
		if g.narrow && ci == 0 {
			continue
		}
		for _, sp := range splits(rest, 1) {
			prod(sp, []c6ctx{c}, func(b [][]*c6stmt) { out = append(out, &c6stmt{kind: c6if, c1: ci, blocks: b, size: size}) })
		}
		for _, sp := range splits(rest, 2) {
			prod(sp, []c6ctx{c, c}, func(b [][]*c6stmt) { out = append(out, &c6stmt{kind: c6ifelse, c1: ci, blocks: b, size: size}) })
		}
	}
	// if / else if / else: conditions (c1,c2) restricted to the pairs that can disagree
	for _, cp := range [][2]int{{1, 2}, {2, 1}, {1, 0}} {
		cp := cp
		if g.narrow {
			break
		}
		for _, sp := range splits(rest, 3) {
			prod(sp, []c6ctx{c, c, c}, func(b [][]*c6stmt) {
				out = append(out, &c6stmt{kind: c6ifelseif, c1: cp[0], c2: cp[1], blocks: b, size: size})
			})
		}
	}
	// loops
	for _, kd := range []c6kind{c6for3, c6forcond, c6forever, c6range, c6rangeSel} {
		kd := kd
		if g.narrow && kd != c6range {
			continue
		}
		for _, sp := range splits(rest, 1) {
			prod(sp, []c6ctx{loop}, func(b [][]*c6stmt) { out = append(out, &c6stmt{kind: kd, blocks: b, size: size}) })
		}
	}
	// switches: 1..2 cases, default absent or at each position; a clause body may be empty
	emptyClauses = true
	for _, kd := range []c6kind{c6swTag, c6swBool} {
		kd := kd
		for nCases := 1; nCases <= 2; nCases++ {
			nCases := nCases
			if g.narrow && (kd != c6swBool || nCases != 1) {
				continue
			}
			condPairs := [][2]int{{0, 0}}
			if kd == c6swBool {
				if nCases == 1 && g.narrow {
					condPairs = [][2]int{{1, 0}}
				} else if nCases == 1 {
					condPairs = [][2]int{{1, 0}, {2, 0}}
				} else {
					condPairs = [][2]int{{1, 2}, {2, 1}}
				}
			}
			for _, cp := range condPairs {
				cp := cp
				// without default
				for _, sp := range splits(rest, nCases) {
					ctxs := make([]c6ctx, nCases)
					for i := range ctxs {
						ctxs[i] = sw
					}
					prod(sp, ctxs, func(b [][]*c6stmt) {
						out = append(out, &c6stmt{kind: kd, c1: cp[0], c2: cp[1], blocks: b, nCases: nCases, size: size})
						if nCases == 1 && !g.narrow && (kd == c6swTag || cp[0] == 1) {
							out = append(out, &c6stmt{kind: kd, c1: 1, c2: 2, blocks: b, nCases: nCases, list: true, size: size})
						}
					})
				}
				// with default at each position
				for _, sp := range splits(rest, nCases+1) {
					ctxs := make([]c6ctx, nCases+1)
					for i := range ctxs {
						ctxs[i] = sw
					}
					for dp := 0; dp <= nCases; dp++ {
						dp := dp
						prod(sp, ctxs, func(b [][]*c6stmt) {
							out = append(out, &c6stmt{kind: kd, c1: cp[0], c2: cp[1], blocks: b, nCases: nCases, hasDef: true, defPos: dp, size: size})
							if nCases == 1 && !g.narrow && (kd == c6swTag || cp[0] == 1) {
								out = append(out, &c6stmt{kind: kd, c1: 1, c2: 2, blocks: b, nCases: nCases, hasDef: true, defPos: dp, list: true, size: size})
							}
						})
					}
				}
			}
		}
	}
	g.stmts[k] = out
	return out
}

// rendering ------------------------------------------------------------------

type c6render struct {
	b     strings.Builder
	trace int
	fl    *c6flavor
}

func (w *c6render) block(bl []*c6stmt, ind string) {
	for _, s := range bl {
		w.stmt(s, ind)
	}
}

func (w *c6render) stmt(s *c6stmt, ind string) {
	in := ind + "\t"
	switch s.kind {
	case c6trace:
		w.trace++
		fmt.Fprintf(&w.b, "%strace(%d)\n", ind, w.trace)
	case c6break:
		w.b.WriteString(ind + "break\n")
	case c6continue:
		w.b.WriteString(ind + "continue\n")
	case c6return:
		w.b.WriteString(ind + "return\n")
	case c6if:
		fmt.Fprintf(&w.b, "%sif %s {\n", ind, w.fl.conds[s.c1])
		w.block(s.blocks[0], in)
		w.b.WriteString(ind + "}\n")
	case c6ifelse:
		fmt.Fprintf(&w.b, "%sif %s {\n", ind, w.fl.conds[s.c1])
		w.block(s.blocks[0], in)
		w.b.WriteString(ind + "} else {\n")
		w.block(s.blocks[1], in)
		w.b.WriteString(ind + "}\n")
	case c6ifelseif:
		fmt.Fprintf(&w.b, "%sif %s {\n", ind, w.fl.conds[s.c1])
		w.block(s.blocks[0], in)
		fmt.Fprintf(&w.b, "%s} else if %s {\n", ind, w.fl.conds[s.c2])
		w.block(s.blocks[1], in)
		w.b.WriteString(ind + "} else {\n")
		w.block(s.blocks[2], in)
		w.b.WriteString(ind + "}\n")
	case c6for3:
		w.b.WriteString(ind + "for i := 0; " + w.fl.for3 + "; i++ {\n")
		w.block(s.blocks[0], in)
		w.b.WriteString(ind + "}\n")
	case c6forcond:
		w.b.WriteString(ind + "for " + w.fl.forc + " {\n")
		w.block(s.blocks[0], in)
		w.b.WriteString(ind + "}\n")
	case c6forever:
		w.b.WriteString(ind + "for {\n")
		w.block(s.blocks[0], in)
		w.b.WriteString(ind + "}\n")
	case c6range:
		w.b.WriteString(ind + "for _, v := range two {\n" + in + "_ = v\n")
		w.block(s.blocks[0], in)
		w.b.WriteString(ind + "}\n")
	case c6rangeSel:
		w.b.WriteString(ind + "for _, v := range sel() {\n" + in + "_ = v\n")
		w.block(s.blocks[0], in)
		w.b.WriteString(ind + "}\n")
	case c6swTag, c6swBool:
		if s.kind == c6swTag {
			w.b.WriteString(ind + "switch " + w.fl.tag + " {\n")
		} else {
			w.b.WriteString(ind + "switch {\n")
		}
		ci := 0
		for pos := 0; pos <= s.nCases; pos++ {
			if s.hasDef && pos == s.defPos {
				w.b.WriteString(ind + "default:\n")
				w.block(s.blocks[s.nCases], in)
			}
			if ci < s.nCases {
				if s.list && s.kind == c6swTag {
					fmt.Fprintf(&w.b, "%scase %s, %s:\n", ind, w.fl.cases[0], w.fl.cases[1])
				} else if s.list {
					fmt.Fprintf(&w.b, "%scase %s, %s:\n", ind, w.fl.conds[s.c1], w.fl.conds[s.c2])
				} else if s.kind == c6swTag {
					fmt.Fprintf(&w.b, "%scase %s:\n", ind, w.fl.cases[ci])
				} else {
					c := s.c1
					if ci == 1 {
						c = s.c2
					}
					fmt.Fprintf(&w.b, "%scase %s:\n", ind, w.fl.conds[c])
				}
				w.block(s.blocks[ci], in)
				ci++
			}
		}
		w.b.WriteString(ind + "}\n")
	}
}

// c6usesConst: the program contains a condition, loop bound or switch tag (anything a flavor respells).
func c6usesConst(bl []*c6stmt) bool {
	for _, s := range bl {
		if s.kind >= c6if && s.kind != c6forever && s.kind != c6range && s.kind != c6rangeSel {
			return true
		}
		for _, b := range s.blocks {
			if c6usesConst(b) {
				return true
			}
		}
	}
	return false
}

// c6oneLine joins the statements of a rendered body on one line: "; " between statements, a blank after an opening
// brace or a case label and before a closing brace (Go inserts no semicolon there).
func c6oneLine(body string) string {
	var out strings.Builder
	prev := ""
	for _, l := range strings.Split(body, "\n") {
		l = strings.TrimSpace(l)
		if l == "" {
			continue
		}
		switch {
		case prev == "":
		case strings.HasSuffix(prev, "{") || strings.HasSuffix(prev, ":") || strings.HasPrefix(l, "}"):
			out.WriteString(" ")
		default:
			out.WriteString("; ")
		}
		out.WriteString(l)
		prev = l
	}
	return "\t" + out.String() + "\n"
}

func c6body(prog []*c6stmt, flavor int) string {
	w := &c6render{fl: &c6flavors[flavor]}
	w.b.WriteString(w.fl.prologue)
	w.block(prog, "\t")
	return w.b.String()
}

// reference interpreter ------------------------------------------------------

type c6sig int

const (
	sNone c6sig = iota
	sBreak
	sContinue
	sReturn
	sFuel
)

type c6interp struct {
	n, fuel, trace int
	out            []int
}

func (it *c6interp) cond(c int) bool {
	switch c {
	case 0:
		return true
	case 1:
		return it.n%2 == 0
	}
	return it.n < 3
}

func c6count(bl []*c6stmt) int {
	n := 0
	for _, s := range bl {
		n += c6countS(s)
	}
	return n
}

func c6countS(s *c6stmt) int {
	if s.kind == c6trace {
		return 1
	}
	n := 0
	for _, b := range s.blocks {
		n += c6count(b)
	}
	return n
}

// block with explicit base offset
func (it *c6interp) run(bl []*c6stmt, base int) c6sig {
	for _, s := range bl {
		sg := it.exec(s, base)
		base += c6countS(s)
		if sg != sNone {
			return sg
		}
	}
	return sNone
}

// srcOrderBases returns, for a switch, the base offset of each block in rendering order.
func c6switchBases(s *c6stmt, base int) []int {
	bases := make([]int, len(s.blocks))
	ci := 0
	for pos := 0; pos <= s.nCases; pos++ {
		if s.hasDef && pos == s.defPos {
			bases[s.nCases] = base
			base += c6count(s.blocks[s.nCases])
		}
		if ci < s.nCases {
			bases[ci] = base
			base += c6count(s.blocks[ci])
			ci++
		}
	}
	return bases
}

func (it *c6interp) exec(s *c6stmt, base int) c6sig {
	it.fuel--
	if it.fuel < 0 {
		return sFuel
	}
	switch s.kind {
	case c6trace:
		it.out = append(it.out, base+1)
		it.n++
		return sNone
	case c6break:
		return sBreak
	case c6continue:
		return sContinue
	case c6return:
		return sReturn
	case c6if:
		if it.cond(s.c1) {
			return it.run(s.blocks[0], base)
		}
		return sNone
	case c6ifelse:
		if it.cond(s.c1) {
			return it.run(s.blocks[0], base)
		}
		return it.run(s.blocks[1], base+c6count(s.blocks[0]))
	case c6ifelseif:
		if it.cond(s.c1) {
			return it.run(s.blocks[0], base)
		}
		if it.cond(s.c2) {
			return it.run(s.blocks[1], base+c6count(s.blocks[0]))
		}
		return it.run(s.blocks[2], base+c6count(s.blocks[0])+c6count(s.blocks[1]))
	case c6for3, c6range, c6rangeSel:
		iters := 2
		if s.kind == c6rangeSel && it.n%2 != 0 { // the range expression is evaluated once, before the loop: nil when n is odd
			iters = 0
		}
		for i := 0; i < iters; i++ {
			it.fuel--
			if it.fuel < 0 {
				return sFuel
			}
			sg := it.run(s.blocks[0], base)
			if sg == sBreak {
				break
			}
			if sg == sReturn || sg == sFuel {
				return sg
			}
			// sContinue: fall to the post statement / next element
		}
		return sNone
	case c6forcond, c6forever:
		for s.kind == c6forever || it.n < 6 {
			it.fuel--
			if it.fuel < 0 {
				return sFuel
			}
			sg := it.run(s.blocks[0], base)
			if sg == sBreak {
				break
			}
			if sg == sReturn || sg == sFuel {
				return sg
			}
		}
		return sNone
	case c6swTag, c6swBool:
		bases := c6switchBases(s, base)
		chosen := -1
		if s.list {
			if (s.kind == c6swTag && it.n%3 <= 1) || (s.kind == c6swBool && (it.cond(s.c1) || it.cond(s.c2))) {
				chosen = 0
			}
		} else if s.kind == c6swTag {
			tag := it.n % 3
			for ci := 0; ci < s.nCases; ci++ {
				if tag == ci {
					chosen = ci
					break
				}
			}
		} else {
			for ci := 0; ci < s.nCases; ci++ {
				c := s.c1
				if ci == 1 {
					c = s.c2
				}
				if it.cond(c) {
					chosen = ci
					break
				}
			}
		}
		if chosen < 0 && s.hasDef {
			chosen = s.nCases
		}
		if chosen < 0 {
			return sNone
		}
		sg := it.run(s.blocks[chosen], bases[chosen])
		if sg == sBreak {
			return sNone
		}
		return sg
	}
	panic("c6 exec")
}

// c6ref runs the reference; ok=false when it does not finish within the fuel.
func c6ref(prog []*c6stmt) (string, bool) { return c6refFrom(prog, 0) }

// c6starts: every program is entered with the counter n at each of these values (n drives every condition, so the
// initial state selects which branches, clauses and iterations are reachable)
var c6starts = []int{0, 1, 3}

func c6refFrom(prog []*c6stmt, n0 int) (string, bool) {
	it := &c6interp{fuel: 1000, n: n0}
	sg := it.run(prog, 0)
	if sg == sFuel {
		return "", false
	}
	if it.out == nil {
		return "[]", true
	}
	return fmt.Sprint(it.out), true
}

// c6refAll: the traces from every start, joined by " | "
func c6refAll(prog []*c6stmt) (string, bool) {
	var parts []string
	for _, n0 := range c6starts {
		w, ok := c6refFrom(prog, n0)
		if !ok {
			return "", false
		}
		parts = append(parts, w)
	}
	return strings.Join(parts, " | "), true
}

// program packaging ------------------------------------------------------------

const c6perPkg = 400

func c6pkgSource(pkg string, bodies []string) string {
	var b strings.Builder
	b.WriteString("package " + pkg + "\n\nimport \"fmt\"\n\nvar n int\nvar out []int\nvar two = []int{10, 20}\n\n")
	b.WriteString("func trace(k int) {\n\tout = append(out, k)\n\tn++\n}\n\nfunc sel() []int {\n\tif n%2 == 0 {\n\t\treturn two\n\t}\n\treturn nil\n}\n\nfunc Reset() {\n\tn = 0\n\tout = []int{}\n}\n\nfunc Start(k int) {\n\tn = k\n\tout = []int{}\n}\n\nfunc Out() string {\n\treturn fmt.Sprint(out)\n}\n\n")
	for i, body := range bodies {
		fmt.Fprintf(&b, "func F%d() {\n%s}\n\n", i, body)
	}
	b.WriteString("func Main() {\n")
	for i := range bodies {
		for _, n0 := range c6starts {
			fmt.Fprintf(&b, "\tStart(%d)\n\tF%d()\n\tfmt.Println(Out())\n", n0, i)
		}
	}
	b.WriteString("}\n")
	return b.String()
}

// c6goat runs every function of the package on goatlang; returns one result string per function.
func c6goat(pkg, src string, nf int) []string {
	res := make([]string, nf)
	m := goat.New()
	defer m.Close()
	m.Ctx.MaxSteps = 100_000 // the reference finishes within 1000 statement steps; Func builds a fresh VM value per call, so a failed call leaves nothing behind
	lr := m.Load(goat.FS(map[string]string{pkg + "/" + pkg + ".go": src}), pkg)
	if lr.Failed() {
		for i := range res {
			res[i] = "LOAD " + lr.String()
		}
		return res
	}
	for i := 0; i < nf; i++ {
		var parts []string
		for _, n0 := range c6starts {
			m.Call(pkg+".Start", 0, goatlang.Int(n0))
			r := m.Call(fmt.Sprintf("%s.F%d", pkg, i), 0)
			if r.Failed() {
				parts = append(parts, "ERROR "+r.Status()+" "+firstLine(fmt.Sprint(r.Err))+fmt.Sprint(r.HostPanic))
				continue
			}
			o := m.Call(pkg+".Out", 1)
			if o.Failed() || len(o.Rets) != 1 {
				parts = append(parts, "ERROR reading Out: "+o.String())
				continue
			}
			parts = append(parts, o.Rets[0].String())
		}
		res[i] = strings.Join(parts, " | ")
	}
	return res
}

type c6replay struct {
	Body string `json:"body"`
}

func c6run(r *report.Run) {
	maxN := 5
	nFlavors := 2 // plain + constants spelled through locals (additive forms)
	goEvery := 0  // validate reference against Go on every k-th program of the 5-node layer (0 = none)
	if r.Tier == "thorough" {
		maxN = 6
		goEvery = 25
		nFlavors = 3
	}
	r.Rule("all programs of the control-flow mini language (trace/break/continue/return leaves; if, if-else, if-else-if, 3-clause for, condition for, infinite for, range over a slice, range over a value that is a slice or nil depending on the counter, tagged and tagless switch with 1-2 cases (a single case also with a list of two values) and default absent/first/middle/last; blocks of 1-2 statements; conditions true, n%2==0, n<3; each also written on a single source line, and with its condition-only and infinite loops spelled as clauses with empty parts: for ; c; {, for ; ; {, and with a variable named like the loop variable declared in the body of every three-clause loop) with at most N statement nodes that the reference interpreter finishes, each entered with the counter n = 0, 1 and 3, plus all programs with N+1 nodes over the narrow sub-language {leaves, if / if-else on two conditions, range, tagless switch with one case and optional default}; non-trivial = distinct program containing at least one break/continue/return inside a compound statement")
	r.Assume("reference interpreter (structured, ~120 lines) is trusted as far as its cross-validation against the Go toolchain reaches: the complete <=4-node layer in every run", "programs the reference does not finish within 1000 steps are dropped (a program it finishes but goatlang does not is a violation)")
	g := &c6gen{stmts: map[string][]*c6stmt{}, blocks: map[string][][]*c6stmt{}}
	top := c6ctx{}
	cache := oracle.OpenCache("c06")
	defer cache.Save()
	var dropped, total, goValidated int
	pkgN := 0
	// process one batch of programs (one goatlang package; optionally also the Go oracle)
	type item struct {
		body, want string
		nontriv    bool
	}
	var goProgs []*oracle.Prog
	var goItems [][]item
	runBatch := func(items []item, withGo bool) (string, string) {
		pkg := fmt.Sprintf("p%05d", pkgN)
		pkgN++
		bodies := make([]string, len(items))
		for i, it := range items {
			bodies[i] = it.body
		}
		src := c6pkgSource(pkg, bodies)
		if withGo {
			goProgs = append(goProgs, &oracle.Prog{Pkg: pkg, Files: map[string]string{pkg + ".go": src}, Entry: "Main"})
			goItems = append(goItems, items)
		}
		return pkg, src
	}
	type batch struct {
		pkg, src string
		items    []item
	}
	var batches []batch
	flush := func(items []item, withGo bool) {
		if len(items) == 0 {
			return
		}
		pkg, src := runBatch(items, withGo)
		batches = append(batches, batch{pkg, src, items})
	}
	execBatches := func() {
		par.Do(len(batches), func(k int) {
			b := batches[k]
			got := c6goat(b.pkg, b.src, len(b.items))
			if len(b.items) > 1 && strings.HasPrefix(got[0], "LOAD ") {
				// one program the front end rejects takes the whole package with it: find out which by loading each on its own
				for i, it := range b.items {
					got[i] = c6goat(b.pkg, c6pkgSource(b.pkg, []string{it.body}), 1)[0]
				}
			}
			for i, it := range b.items {
				r.Eval(1)
				r.Outcome(got[i])
				if it.nontriv {
					r.Nontrivial(it.body)
				}
				if got[i] != it.want {
					r.Fail(&report.Case{Kind: "trace", Key: it.body, Input: c6replay{it.body}, Want: it.want, Got: got[i]})
				}
			}
			if k%97 == 0 && len(b.items) > 3 {
				it := b.items[len(b.items)/2]
				r.Sample(map[string]any{"program_body": it.body, "reference_trace": it.want, "goatlang_trace": got[len(b.items)/2]})
			}
		})
		batches = batches[:0]
	}
	nontrivial := func(prog []*c6stmt) bool {
		var has func(bl []*c6stmt, depth int) bool
		has = func(bl []*c6stmt, depth int) bool {
			for _, s := range bl {
				if depth > 0 && (s.kind == c6break || s.kind == c6continue || s.kind == c6return) {
					return true
				}
				for _, b := range s.blocks {
					if has(b, depth+1) {
						return true
					}
				}
			}
			return false
		}
		return has(prog, 0)
	}
	narrowGen := &c6gen{stmts: map[string][]*c6stmt{}, blocks: map[string][][]*c6stmt{}, narrow: true}
	fullGen := g
	for size := 1; size <= maxN+1; size++ {
		if r.Violations() > 200 {
			r.NotExhaustive("stopped early: more than 200 violations")
			break
		}
		if r.Expired() {
			r.NotExhaustive(fmt.Sprintf("internal deadline reached before layer %d", size))
			break
		}
		g := fullGen
		if size > maxN {
			g = narrowGen // one more layer over the narrow sub-language
		}
		withGoLayer := size <= 4
		var cur []item
		idx := 0
		emit := func(prog []*c6stmt) {
			total++
			want, ok := c6refAll(prog)
			if !ok {
				dropped++
				return
			}
			idx++
			nt := nontrivial(prog)
			for fl := 0; fl <= nFlavors+2; fl++ {
				if fl > 0 && fl < nFlavors && !c6usesConst(prog) {
					continue // no constant to respell: identical text
				}
				var body string
				if fl == nFlavors+2 {
					// scope: the body of every three-clause loop declares a variable named like the loop variable; the post
					// statement and the condition still mean the loop variable (continue must advance the loop)
					plain := c6body(prog, 0)
					body = c6for3Re.ReplaceAllString(plain, "${0}\n${1}\ti := i * 10\n${1}\t_ = i")
					if body == plain {
						continue
					}
				} else if fl == nFlavors+1 {
					// spelling: `for cond {` as `for ; cond; {` and `for {` as `for ; ; {` (clauses with empty parts)
					plain := c6body(prog, 0)
					body = c6emptyParts(plain)
					if body == plain {
						continue
					}
				} else if fl == nFlavors {
					// layout: the plain program written on ONE source line (nothing may depend on line numbers)
					if size < 2 {
						continue
					}
					body = c6oneLine(c6body(prog, 0))
				} else {
					body = c6body(prog, fl)
				}
				cur = append(cur, item{body: body, want: want, nontriv: nt})
				if len(cur) == c6perPkg {
					flush(cur, withGoLayer)
					cur = nil
					if len(batches) >= 256 {
						execBatches()
					}
				}
			}
		}
		// stream the top layer: blocks of 1..2 statements of total size `size`
		for _, s := range g.allStmts(size, top) {
			emit([]*c6stmt{s})
		}
		for a := 1; a < size; a++ {
			for _, s1 := range g.allStmts(a, top) {
				for _, s2 := range g.allStmts(size-a, top) {
					emit([]*c6stmt{s1, s2})
				}
			}
		}
		flush(cur, withGoLayer)
		execBatches()
		r.Set(fmt.Sprintf("programs_with_%d_nodes", size), idx)
		if size == 5 && goEvery > 0 {
			// every 25th program of the 5-node layer against the toolchain as well
			var sel []item
			k := 0
			visit := func(prog []*c6stmt) {
				want, ok := c6refAll(prog)
				if !ok {
					return
				}
				k++
				if k%goEvery == 0 {
					sel = append(sel, item{body: c6body(prog, k/goEvery%len(c6flavors)), want: want})
					if len(sel) == c6perPkg {
						runBatch(sel, true)
						sel = nil
					}
				}
			}
			for _, s := range g.allStmts(size, top) {
				visit([]*c6stmt{s})
			}
			for a := 1; a < size; a++ {
				for _, s1 := range g.allStmts(a, top) {
					for _, s2 := range g.allStmts(size-a, top) {
						visit([]*c6stmt{s1, s2})
					}
				}
			}
			if len(sel) > 0 {
				runBatch(sel, true)
			}
		}
	}
	// validate the reference against the Go toolchain
	if len(goProgs) > 0 {
		gres, err := cache.Run(goProgs)
		if err != nil {
			r.HarnessError("Go oracle: %v", err)
		} else {
			for k, gr := range gres {
				if gr.BuildErr != "" {
					r.HarnessError("generated program rejected by the Go toolchain: %s", gr.BuildErr)
					continue
				}
				raw := strings.Split(strings.TrimRight(gr.Out, "\n"), "\n")
				var lines []string // one entry per program: its traces from every start
				for i := 0; i+len(c6starts) <= len(raw); i += len(c6starts) {
					lines = append(lines, strings.Join(raw[i:i+len(c6starts)], " | "))
				}
				if len(raw) != len(goItems[k])*len(c6starts) || gr.Panicked {
					r.HarnessError("Go oracle output of %s has %d lines for %d programs (panicked=%v)", goProgs[k].Pkg, len(lines), len(goItems[k]), gr.Panicked)
					continue
				}
				for i, it := range goItems[k] {
					goValidated++
					if lines[i] != it.want {
						r.HarnessError("reference interpreter disagrees with the Go toolchain on:\n%s\nGo: %s  reference: %s", it.body, lines[i], it.want)
					}
				}
			}
		}
	}
	r.Set("traces_validated_against_impl", goValidated)
	r.Set("reference_validated_against_go_toolchain", goValidated)
	r.Set("programs_enumerated", total)
	r.Set("programs_dropped_nonterminating_in_reference", dropped)
	r.Set("oracle_cache_hits", cache.Hits)
	r.Set("oracle_built", cache.Built)
	r.Set("max_nodes", maxN)
}

func c6rerun(c *report.Case) (bool, string) {
	var in c6replay
	if !remarshal(c.Input, &in) {
		return false, "bad replay input"
	}
	src := c6pkgSource("p00000", []string{in.Body})
	got := c6goat("p00000", src, 1)
	return got[0] != c.Want, got[0]
}

var _ = goatlang.Nil

func init() { register("C06", c6run, c6rerun) }
