package props

import (
	"fmt"
	"strings"

	"github.com/philhassey/goatlang"

	"verif/internal/goat"
	"verif/internal/oracle"
	"verif/internal/par"
	"verif/internal/report"
)

// C09 — calls deliver arguments and results in order and with their declared types.
//
// Space: signatures (parameter count 0..5 over {int, byte, float64, string}; all
// of them up to arity 2 (3), rotated representatives beyond) x variadic tail
// {none, ...int, ...string} with 0..2 extra arguments or a spread slice x result
// count 0..3 x callee kind {function, method, function literal} x call form
// {statement, single value in an expression, multi-assign, return f() forwarding,
// method value bound before the call, function-typed variable / struct field /
// parameter}; every other supported type in every parameter and result position
// once; recursion depths up to 5000; arity and result-count mismatches.
// Expected text is what the generator planted; the Go toolchain validates it.

var c9types = []string{"int", "byte", "float64", "string"}

type c9cfg struct {
	Params   []int `json:"params"`
	Variadic int   `json:"variadic"` // 0 none, 1 ...int, 2 ...string, 3 ...float64
	Extra    int   `json:"extra"`    // number of variadic arguments passed (0..2), 3 = spread of a 2-element slice
	Rets     int   `json:"rets"`
	Kind     int   `json:"kind"` // 0 function, 1 method, 2 function literal
	Form     int   `json:"form"`
}

var c9forms = []string{"statement", "single value in an expression", "multi-assign", "return f() forwarding", "method value bound before the call", "function-typed variable", "function-typed struct field", "function-typed parameter"}

func (c c9cfg) String() string {
	var ps []string
	for _, p := range c.Params {
		ps = append(ps, c9types[p])
	}
	return fmt.Sprintf("params(%s) variadic=%d extra=%d results=%d kind=%d form=%s", strings.Join(ps, ","), c.Variadic, c.Extra, c.Rets, c.Kind, c9forms[c.Form])
}

// argument literal, how the callee shows the parameter, and the text that shows
func c9param(t, i int) (lit, show, want string) {
	name := fmt.Sprintf("a%d", i)
	switch t {
	case 0:
		return fmt.Sprint(7 + i), name + "*2", fmt.Sprint((7 + i) * 2)
	case 1:
		return fmt.Sprint(200 + i), name + "+100", fmt.Sprint((200 + i + 100) % 256) // only right if the constant became a byte
	case 2:
		return fmt.Sprint(3 + i), name + "/2", fmt.Sprint(float64(3+i) / 2) // only right if the constant became a float64
	}
	return fmt.Sprintf("\"s%d\"", i), name + "+\"!\"", fmt.Sprintf("s%d!", i)
}

var c9retTypes = []string{"int", "string", "float64"}

// result k: literal returned (an untyped constant where possible), how the caller shows it, expected text
func c9ret(k int) (lit, show, want string) {
	name := fmt.Sprintf("r%d", k)
	switch k {
	case 0:
		return "41", name + "+1", "42"
	case 1:
		return "\"res\"", name + "+\"?\"", "res?"
	}
	return "5", name + "/2", "2.5"
}

// c9render renders one configuration with all identifiers suffixed by id; returns declarations, the statements of its
// driver function, and the expected output.
func c9render(c c9cfg, id int) (decls string, want string) {
	sfx := fmt.Sprint(id)
	var params, shows, args, wantIn []string
	for i, t := range c.Params {
		lit, show, w := c9param(t, i)
		params = append(params, fmt.Sprintf("a%d %s", i, c9types[t]))
		shows = append(shows, show)
		args = append(args, lit)
		wantIn = append(wantIn, w)
	}
	var vtype string
	switch c.Variadic {
	case 1:
		vtype = "int"
	case 2:
		vtype = "string"
	case 3:
		vtype = "float64"
	}
	pre := ""
	if vtype != "" {
		params = append(params, "v ..."+vtype)
		shows = append(shows, "len(v)")
		n := c.Extra
		if c.Extra == 3 {
			n = 2
			switch vtype {
			case "int":
				pre = "\txs := []int{61, 62}\n"
			case "float64":
				pre = "\txs := []float64{61, 62}\n"
			default:
				pre = "\txs := []string{\"x1\", \"x2\"}\n"
			}
			args = append(args, "xs...")
		}
		wantIn = append(wantIn, fmt.Sprint(n))
		for k := 0; k < n; k++ {
			if vtype == "int" {
				if c.Extra != 3 {
					args = append(args, fmt.Sprint(61+k))
				}
				shows = append(shows, fmt.Sprintf("v[%d]+1", k))
				wantIn = append(wantIn, fmt.Sprint(62+k))
			} else if vtype == "float64" {
				if c.Extra != 3 {
					args = append(args, fmt.Sprint(61+k)) // an untyped constant: must become a float64 inside the slice
				}
				shows = append(shows, fmt.Sprintf("v[%d]/2", k))
				wantIn = append(wantIn, fmt.Sprint(float64(61+k)/2))
			} else {
				if c.Extra != 3 {
					args = append(args, fmt.Sprintf("\"x%d\"", k+1))
				}
				shows = append(shows, fmt.Sprintf("v[%d]+\".\"", k))
				wantIn = append(wantIn, fmt.Sprintf("x%d.", k+1))
			}
		}
	}
	var rtypes, rlits, rnames, rshows, wantOut []string
	for k := 0; k < c.Rets; k++ {
		lit, show, w := c9ret(k)
		rtypes = append(rtypes, c9retTypes[k])
		rlits = append(rlits, lit)
		rnames = append(rnames, fmt.Sprintf("r%d", k))
		rshows = append(rshows, show)
		wantOut = append(wantOut, w)
	}
	rsig := ""
	switch c.Rets {
	case 0:
	case 1:
		rsig = " " + rtypes[0]
	default:
		rsig = " (" + strings.Join(rtypes, ", ") + ")"
	}
	body := "\tfmt.Println(\"in" + sfx + "\"" + c9comma(shows) + ")\n"
	if c.Rets > 0 {
		body += "\treturn " + strings.Join(rlits, ", ") + "\n"
	}
	sig := "(" + strings.Join(params, ", ") + ")" + rsig
	// plain function type (no parameter names) for fields / parameters
	var ptypes []string
	for _, t := range c.Params {
		ptypes = append(ptypes, c9types[t])
	}
	if vtype != "" {
		ptypes = append(ptypes, "..."+vtype)
	}
	ftype := "func(" + strings.Join(ptypes, ", ") + ")" + rsig
	var d strings.Builder
	callee := "callee" + sfx
	fmt.Fprintf(&d, "type T%s struct {\n\tn int\n}\n\n", sfx)
	switch c.Kind {
	case 0:
		fmt.Fprintf(&d, "func %s%s {\n%s}\n\n", callee, sig, body)
	case 1:
		fmt.Fprintf(&d, "func (t *T%s) %s%s {\n%s}\n\n", sfx, callee, sig, body)
		callee = "t." + callee
	}
	call := callee + "(" + strings.Join(args, ", ") + ")"
	var m strings.Builder // driver body
	if c.Kind == 1 {
		fmt.Fprintf(&m, "\tt := &T%s{n: 1}\n", sfx)
	}
	if c.Kind == 2 {
		fmt.Fprintf(&m, "\tcallee%s := func%s {\n%s\t}\n", sfx, sig, strings.ReplaceAll(body, "\t", "\t\t")[1:])
	}
	if c.Form != 3 && c.Form != 7 {
		m.WriteString(pre)
	}
	assign := func(callExpr string) {
		if c.Rets == 0 {
			m.WriteString("\t" + callExpr + "\n")
		} else {
			m.WriteString("\t" + strings.Join(rnames, ", ") + " := " + callExpr + "\n")
		}
	}
	switch c.Form {
	case 0:
		m.WriteString("\t" + call + "\n")
		wantOut = nil
		rshows = nil
	case 1:
		m.WriteString("\tr0 := 1 + " + call + "*2\n")
		rshows, wantOut = []string{"r0"}, []string{"83"}
	case 2:
		assign(call)
	case 3:
		fmt.Fprintf(&d, "func fwd%s(%s)%s {\n", sfx, c9fwdParams(c, sfx), rsig)
		// forwarding function: needs the callee in scope; methods and literals are passed in
		if c.Rets > 0 {
			d.WriteString("\treturn " + c9fwdCall(c, sfx, args, pre) + "\n}\n\n")
		} else {
			d.WriteString("\t" + c9fwdCall(c, sfx, args, pre) + "\n}\n\n")
		}
		assign("fwd" + sfx + "(" + c9fwdArgs(c, sfx) + ")")
	case 4:
		m.WriteString("\tmv := " + callee + "\n\tt.n = 2\n")
		assign("mv(" + strings.Join(args, ", ") + ")")
	case 5:
		m.WriteString("\tfv := " + callee + "\n")
		assign("fv(" + strings.Join(args, ", ") + ")")
	case 6:
		fmt.Fprintf(&d, "type H%s struct {\n\tfn %s\n}\n\n", sfx, ftype)
		m.WriteString("\th := &H" + sfx + "{fn: " + callee + "}\n")
		assign("h.fn(" + strings.Join(args, ", ") + ")")
	case 7:
		fmt.Fprintf(&d, "func apply%s(f %s)%s {\n", sfx, ftype, rsig)
		inner := "f(" + strings.Join(c9noSpread(args, vtype), ", ") + ")"
		if c.Rets > 0 {
			d.WriteString("\treturn " + inner + "\n}\n\n")
		} else {
			d.WriteString("\t" + inner + "\n}\n\n")
		}
		assign("apply" + sfx + "(" + callee + ")")
	}
	if len(rshows) > 0 {
		m.WriteString("\tfmt.Println(\"out" + sfx + "\"" + c9comma(rshows) + ")\n")
	}
	fmt.Fprintf(&d, "func Drive%s() {\n%s}\n\n", sfx, m.String())
	want = "in" + sfx
	if len(wantIn) > 0 {
		want += " " + strings.Join(wantIn, " ")
	}
	want += "\n"
	if len(rshows) > 0 {
		want += "out" + sfx + " " + strings.Join(wantOut, " ") + "\n"
	}
	return d.String(), want
}

func c9comma(xs []string) string {
	if len(xs) == 0 {
		return ""
	}
	return ", " + strings.Join(xs, ", ")
}

// in the apply/forward helpers a spread argument refers to a local slice of the driver: use literal elements instead
func c9noSpread(args []string, vtype string) []string {
	out := append([]string{}, args...)
	if len(out) > 0 && out[len(out)-1] == "xs..." {
		if vtype == "int" {
			out[len(out)-1] = "[]int{61, 62}..."
		} else if vtype == "float64" {
			out[len(out)-1] = "[]float64{61, 62}..."
		} else {
			out[len(out)-1] = "[]string{\"x1\", \"x2\"}..."
		}
	}
	return out
}

func c9fwdParams(c c9cfg, sfx string) string {
	switch c.Kind {
	case 1:
		return "t *T" + sfx
	}
	return ""
}

func c9fwdArgs(c c9cfg, sfx string) string {
	if c.Kind == 1 {
		return "t"
	}
	return ""
}

func c9fwdCall(c c9cfg, sfx string, args []string, pre string) string {
	vt := ""
	switch c.Variadic {
	case 1:
		vt = "int"
	case 2:
		vt = "string"
	case 3:
		vt = "float64"
	}
	a := strings.Join(c9noSpread(args, vt), ", ")
	if c.Kind == 1 {
		return "t.callee" + sfx + "(" + a + ")"
	}
	return "callee" + sfx + "(" + a + ")"
}

func c9valid(c c9cfg) bool {
	if c.Variadic == 0 && c.Extra != 0 {
		return false
	}
	switch c.Form {
	case 1:
		if c.Rets != 1 {
			return false
		}
	case 2:
		if c.Rets == 0 {
			return false
		}
	case 3:
		if c.Kind == 2 { // a literal is a local of the driver: not visible to a forwarding function
			return false
		}
	case 4:
		if c.Kind != 1 {
			return false
		}
	case 5, 6, 7:
		if c.Kind == 2 && c.Form == 5 {
			return false // a literal already is a function-typed variable
		}
	}
	return true
}

func c9configs(thorough bool) []c9cfg {
	var sigs [][]int
	full := 2
	if thorough {
		full = 3
	}
	var rec func(cur []int)
	rec = func(cur []int) {
		sigs = append(sigs, append([]int{}, cur...))
		if len(cur) == full {
			return
		}
		for t := range c9types {
			rec(append(cur, t))
		}
	}
	rec(nil)
	for n := full + 1; n <= 5; n++ {
		for rot := 0; rot < 4; rot++ {
			s := make([]int, n)
			for i := range s {
				s[i] = (i + rot) % 4
			}
			sigs = append(sigs, s)
		}
	}
	var out []c9cfg
	for _, s := range sigs {
		for variadic := 0; variadic <= 3; variadic++ {
			for extra := 0; extra <= 3; extra++ {
				for rets := 0; rets <= 3; rets++ {
					for kind := 0; kind < 3; kind++ {
						for form := range c9forms {
							c := c9cfg{s, variadic, extra, rets, kind, form}
							if !c9valid(c) {
								continue
							}
							// thin the product for long signatures: every (variadic, extra, rets, kind, form) combination
							// still occurs, spread over the signatures of that arity
							if len(s) > full && (variadic*7+extra*5+rets*3+kind*2+form+len(s)+s[0])%4 != 0 {
								continue
							}
							out = append(out, c)
						}
					}
				}
			}
		}
	}
	return out
}

const c9perPkg = 40

func c9package(pkg string, cfgs []c9cfg, base int) (src string, wants []string) {
	var b strings.Builder
	b.WriteString("package " + pkg + "\n\nimport \"fmt\"\n\n")
	for i, c := range cfgs {
		d, w := c9render(c, base+i)
		b.WriteString(d)
		wants = append(wants, w)
	}
	b.WriteString("func Main() {\n")
	for i := range cfgs {
		fmt.Fprintf(&b, "\tDrive%d()\n", base+i)
	}
	b.WriteString("}\n")
	return b.String(), wants
}

// fixed templates: other types in every position, recursion depths, retained variadic slices, mismatches
func c9templates() (valid [][2]string, mismatch []string) {
	hdr := "package t\n\nimport \"fmt\"\n\ntype T struct {\n\tn int\n}\n\nfunc (t *T) Get() int {\n\treturn t.n\n}\n\n"
	add := func(decls, body, want string) {
		valid = append(valid, [2]string{hdr + decls + "func Main() {\n" + body + "}\n", want})
	}
	add("func f(a int8, b uint32, c bool, d []int, e map[string]int, g *T, h func(int) int, i any) (int8, uint32, bool, []int, map[string]int, *T, func(int) int, any) {\n\tfmt.Println(a+100, b+1, c, len(d), len(e), g == nil, h == nil, i == nil)\n\treturn 100, 4000000000, true, nil, nil, nil, nil, nil\n}\n\n",
		"\ta, b, c, d, e, g, h, i := f(100, 4294967295, true, nil, nil, nil, nil, nil)\n\tfmt.Println(a+100, b+1, c, d == nil, e == nil, g == nil, h == nil, i == nil, len(d), len(e))\n",
		"-56 0 true 0 0 true true true\n-56 4000000001 true true true true true true 0 0\n")
	add("func f(d []int, e map[string]int, g *T, h func(int) int, i any) int {\n\td[0] = 9\n\te[\"k\"] = 8\n\tg.n = 7\n\treturn h(1) + len(d)\n}\n\nfunc inc(a int) int {\n\treturn a + 1\n}\n\n",
		"\td := []int{1}\n\te := map[string]int{}\n\tg := &T{}\n\tfmt.Println(f(d, e, g, inc, 5), d[0], e[\"k\"], g.n, g.Get())\n",
		"3 9 8 7 7\n")
	add("func keep(xs ...int) []int {\n\treturn xs\n}\n\n",
		"\ta := keep(1, 2, 3)\n\tb := keep(7, 8, 9)\n\tc := keep()\n\tfmt.Println(a[0], a[1], a[2], b[0], b[1], b[2], len(c), c == nil)\n\ts := []int{4, 5}\n\td := keep(s...)\n\td[0] = 6\n\tfmt.Println(s[0], len(d))\n",
		"1 2 3 7 8 9 0 true\n6 2\n")
	add("func mix(a byte, rest ...byte) byte {\n\tfor _, r := range rest {\n\t\ta += r\n\t}\n\treturn a\n}\n\n",
		"\tfmt.Println(mix(200), mix(200, 100), mix(1, 255, 255))\n",
		"200 44 255\n")
	add("func half(xs ...float64) float64 {\n\tt := 0.0\n\tfor _, x := range xs {\n\t\tt += x / 2\n\t}\n\treturn t\n}\n\nfunc (t *T) Half(a int, xs ...float64) float64 {\n\treturn xs[0]/2 + xs[1]/2 + float64(a)\n}\n\n",
		"\tx := 3.0\n\tt := &T{}\n\tfmt.Println(half(x, 1), half(1, x), half(1, 3), half(x, x), t.Half(1, x, 1), t.Half(1, 1, 3))\n",
		"2 2 2 3 3 3\n")
	for _, depth := range []int{1, 2, 3, 10, 100, 1000, 5000} {
		add("func down(n int, a int, b string) (int, string) {\n\tif n == 0 {\n\t\treturn a, b\n\t}\n\tx, y := down(n-1, a+1, b)\n\treturn x + 1, y\n}\n\n",
			fmt.Sprintf("\tx, y := down(%d, 1, \"s\")\n\tfmt.Println(x, y)\n", depth), fmt.Sprintf("%d s\n", 1+2*depth))
		add("func (t *T) Down(n int, a float64) float64 {\n\tif n == 0 {\n\t\treturn a\n\t}\n\treturn t.Down(n-1, a+0.5)\n}\n\n",
			fmt.Sprintf("\tt := &T{}\n\tfmt.Println(t.Down(%d, 0))\n", depth), fmt.Sprintf("%v\n", float64(depth)*0.5))
	}
	// the results of one call delivered, in order, to elements, fields, map entries and blanks in every position
	add("func three() (int, string, int) {\n\treturn 1, \"seven\", 3\n}\n\nfunc pair() (int, string) {\n\treturn 5, \"five\"\n}\n\ntype B struct {\n\tn int\n\ts string\n}\n\n",
		"\txs := []int{0, 0}\n\tb := &B{}\n\tm := map[string]int{}\n\tvar q string\n\txs[0], _, xs[1] = three()\n\tfmt.Println(xs)\n\tb.n, _ = pair()\n\t_, b.s = pair()\n\tfmt.Println(b.n, b.s)\n\txs[1], q, m[\"k\"] = three()\n\t_, _, xs[0] = three()\n\tfmt.Println(xs, q, m[\"k\"])\n\t_, q, _ = three()\n\tb.n, b.s, xs[0] = three()\n\tfmt.Println(q, b.n, b.s, xs)\n",
		"[1 3]\n5 five\n[3 1] seven 3\nseven 1 seven [3 1]\n")
	// every call of a chain or a nest binds to its own receiver, also when the method names are the same
	add("func mk(n int) *T {\n\treturn &T{n: n}\n}\n\nfunc (t *T) Minus(o *T) *T {\n\treturn &T{n: t.n - o.n}\n}\n\nfunc (t *T) Add(k int) int {\n\treturn t.n + k\n}\n\n",
		"\tfmt.Println(mk(100).Minus(mk(10).Minus(mk(1))).n, mk(1).Add(mk(10).Add(mk(100).Add(1000))), mk(5).Minus(mk(3)).Minus(mk(1)).n)\n\tfmt.Println(mk(50).Minus(mk(20).Minus(mk(7).Minus(mk(2)))).n, mk(9).Minus(mk(mk(1).Add(mk(2).Add(3)))).n)\n",
		"91 1111 1\n35 3\n")
	// typed multi-name declarations fed by a multi-result call, in the middle of other live locals
	add("func two() (int, int) {\n\treturn 3, 4\n}\n\nfunc three() (float64, float64, float64) {\n\treturn 1, 2, 3\n}\n\n",
		"\tp := 100\n\tvar a, b int = two()\n\tq := 200\n\tvar x, y, z float64 = three()\n\tvar c, d = two()\n\tfmt.Println(p+a+b+q, a, b, x/2, y/2, z/2, c, d)\n",
		"307 3 4 0.5 1 1.5 3 4\n")
	// constants converted to the parameter type at every depth of a recursion whose frames hold locals, entered at
	// every stack alignment (pad = number of enclosing frames with a local)
	for _, depth := range []int{0, 1, 2, 3, 10, 100, 1000, 3000} {
		var body strings.Builder
		for pad := 0; pad < 12; pad++ {
			fmt.Fprintf(&body, "\tfmt.Println(pad(%d, %d))\n", pad, depth)
		}
		want := strings.Repeat(fmt.Sprintf("%v\n", float64(depth+1)*0.5), 12)
		add("func rec(n int, f float64, s string) float64 {\n\tx := f / 2\n\tt := s + \"!\"\n\tif n == 0 || len(t) != 2 {\n\t\treturn x\n\t}\n\treturn rec(n-1, 1, \"s\") + x\n}\n\nfunc pad(k int, n int) float64 {\n\tl := k\n\tif l > 0 {\n\t\treturn pad(l-1, n)\n\t}\n\treturn rec(n, 1, \"s\")\n}\n\n",
			body.String(), want)
	}
	// return f() forwarding inside a function literal whose result count differs from the enclosing function's
	retT := []string{"int", "string", "float64"}
	sigOf := func(n int) string {
		switch n {
		case 0:
			return ""
		case 1:
			return " int"
		}
		return " (" + strings.Join(retT[:n], ", ") + ")"
	}
	for outer := 0; outer <= 3; outer++ {
		for inner := 1; inner <= 3; inner++ {
			vals := []string{"1", "\"s\"", "2.5"}
			var lhs []string
			for k := 0; k < inner; k++ {
				lhs = append(lhs, fmt.Sprintf("v%d", k))
			}
			decl := fmt.Sprintf("func src%d()%s {\n\treturn %s\n}\n\nfunc outer()%s {\n\tg := func()%s {\n\t\treturn src%d()\n\t}\n\t%s := g()\n\tfmt.Println(%s)\n", inner, sigOf(inner), strings.Join(vals[:inner], ", "), sigOf(outer), sigOf(inner), inner, strings.Join(lhs, ", "), strings.Join(lhs, ", "))
			if outer > 0 {
				decl += "\treturn " + strings.Join([]string{"7", "\"o\"", "0.5"}[:outer], ", ") + "\n"
			}
			decl += "}\n\n"
			call := "\touter()\n"
			w := strings.Join([]string{"1", "s", "2.5"}[:inner], " ") + "\n"
			if outer > 0 {
				var ol []string
				for k := 0; k < outer; k++ {
					ol = append(ol, fmt.Sprintf("o%d", k))
				}
				call = "\t" + strings.Join(ol, ", ") + " := outer()\n\tfmt.Println(" + strings.Join(ol, ", ") + ")\n"
				w += strings.Join([]string{"7", "o", "0.5"}[:outer], " ") + "\n"
			}
			add(decl, call, w)
		}
	}
	// builtins and conversions in return position (the forwarding of `return f()` must leave them alone)
	add("func app(s []int, x int) []int {\n\treturn append(s, x)\n}\n\nfunc app2(s []int, t []int) []int {\n\treturn append(s, t...)\n}\n\nfunc cp(a []int, b []int) int {\n\treturn copy(a, b)\n}\n\nfunc ln(s string) int {\n\treturn len(s)\n}\n\nfunc conv(x float64) int {\n\treturn int(x)\n}\n\nfunc mk(n int) []int {\n\treturn make([]int, n)\n}\n\nfunc str(b []byte) string {\n\treturn string(b)\n}\n\nfunc two(s []int) ([]int, int) {\n\treturn append(s, 1), len(s)\n}\n\n",
		"\ta := []int{1}\n\tb := app(a, 5)\n\tc := app2(b, []int{7, 8})\n\td := []int{0, 0, 0}\n\tn := cp(d, c)\n\te, m := two(d)\n\tfmt.Println(len(a), b, c, n, d, ln(\"héy\"), conv(2.75), len(mk(3)), str([]byte{104, 105}), e, m)\n",
		"1 [1 5] [1 5 7 8] 3 [1 5 7] 4 2 3 hi [1 5 7 1] 3\n")
	// blank parameters at every subset of four positions (each still takes its argument's place)
	for mask := 0; mask < 16; mask++ {
		var ps, terms []string
		names := []string{"a", "b", "c", "d"}
		typs := []string{"int", "string", "int", "float64"}
		for i := 0; i < 4; i++ {
			n := names[i]
			if mask>>i&1 == 1 {
				n = "_"
			} else {
				switch typs[i] {
				case "int":
					terms = append(terms, n)
				case "string":
					terms = append(terms, "len("+n+")")
				default:
					terms = append(terms, "int("+n+"*2)")
				}
			}
			ps = append(ps, n+" "+typs[i])
		}
		sum := "0"
		if len(terms) > 0 {
			sum = strings.Join(terms, "*10 + ")
		}
		w := 0
		vals := []int{1, 3, 5, 5} // a=1, len("xyz")=3, c=5, int(2.5*2)=5
		k := 0
		for i := 0; i < 4; i++ {
			if mask>>i&1 == 0 {
				k++
			}
		}
		j := 0
		for i := 0; i < 4; i++ {
			if mask>>i&1 == 0 {
				j++
				if j < k {
					w += vals[i] * 10 // the rendered sum is t1*10 + t2*10 + ... + tk
				} else {
					w += vals[i]
				}
			}
		}
		add(fmt.Sprintf("func f(%s) int {\n\te := 7\n\treturn (%s)*10 + e\n}\n\nfunc (t *T) M(%s) int {\n\treturn (%s)*10 + t.n\n}\n\n", strings.Join(ps, ", "), sum, strings.Join(ps, ", "), sum),
			"\tt := &T{n: 7}\n\tg := func("+strings.Join(ps, ", ")+") int {\n\t\treturn ("+sum+")*10 + 7\n\t}\n\tfmt.Println(f(1, \"xyz\", 5, 2.5), t.M(1, \"xyz\", 5, 2.5), g(1, \"xyz\", 5, 2.5))\n",
			fmt.Sprintf("%d %d %d\n", w*10+7, w*10+7, w*10+7))
	}
	// goatlang-only: arity and result-count mismatches must be errors
	mm := func(decls, body string) { mismatch = append(mismatch, hdr+decls+"func Main() {\n"+body+"}\n") }
	two := "func two(a int, b int) int {\n\treturn a + b\n}\n\n"
	mm(two, "\tfmt.Println(two(1))\n")
	mm(two, "\tfmt.Println(two(1, 2, 3))\n")
	mm(two, "\tx, y := two(1, 2)\n\tfmt.Println(x, y)\n")
	mm("func none() {\n}\n\n", "\tx := none()\n\tfmt.Println(x)\n")
	mm("func (t *T) M(a int) int {\n\treturn a\n}\n\n", "\tt := &T{}\n\tfmt.Println(t.M())\n")
	mm("func (t *T) M(a int) int {\n\treturn a\n}\n\n", "\tt := &T{}\n\tfmt.Println(t.M(1, 2))\n")
	mm("func v(a int, b ...int) int {\n\treturn a\n}\n\n", "\tfmt.Println(v())\n")
	mm(two, "\tf := two\n\tfmt.Println(f(1))\n")
	// every wrong argument count for 0..3 fixed parameters with and without a variadic tail, 0..2 results, called as a
	// function / method / function value, in four call contexts (a frame must never be filled from its caller's locals)
	for fixed := 0; fixed <= 3; fixed++ {
		for _, variadic := range []bool{false, true} {
			for rets := 0; rets <= 2; rets++ {
				for given := 0; given <= 5; given++ {
					if given == fixed || (variadic && given > fixed) {
						continue // a correct call
					}
					var ps, args []string
					for i := 0; i < fixed; i++ {
						ps = append(ps, fmt.Sprintf("p%d string", i))
					}
					if variadic {
						ps = append(ps, "xs ...string")
					}
					for i := 0; i < given; i++ {
						args = append(args, fmt.Sprintf("\"a%d\"", i))
					}
					sig := "(" + strings.Join(ps, ", ") + ")" + []string{"", " int", " (int, int)"}[rets]
					ret := []string{"", "\treturn 1\n", "\treturn 1, 2\n"}[rets]
					use := "\tfmt.Println(\"callee\""
					for i := 0; i < fixed; i++ {
						use += fmt.Sprintf(", p%d", i)
					}
					if variadic {
						use += ", len(xs)"
					}
					use += ")\n"
					for kind := 0; kind < 3; kind++ {
						var decls, call string
						al := strings.Join(args, ", ")
						switch kind {
						case 0:
							decls = "func callee" + sig + " {\n" + use + ret + "}\n\n"
							call = "callee(" + al + ")"
						case 1:
							decls = "func (t *T) Callee" + sig + " {\n" + use + ret + "}\n\nvar obj = &T{}\n\n"
							call = "obj.Callee(" + al + ")"
						case 2:
							decls = "var fv = func" + sig + " {\n" + use + ret + "}\n\n"
							call = "fv(" + al + ")"
						}
						// (a) statement in Main; (b) statement in a two-result function with live locals, itself called as a
						// statement from a function with live locals; (c) value used (needs a result); (d) multi-assign
						mm(decls, "\t"+call+"\n")
						mm(decls+"func mid() (string, string) {\n\tl, m := \"L\", \"M\"\n\t"+call+"\n\treturn l, m\n}\n\nfunc top() {\n\tq, r := \"Q\", \"R\"\n\tmid()\n\tfmt.Println(q, r)\n}\n\n", "\ttop()\n")
						if rets >= 1 {
							mm(decls, "\tk := \"K\"\n\tv := "+call+"\n\tfmt.Println(k, v)\n")
						}
						if rets == 2 {
							mm(decls, "\tk := \"K\"\n\tv, w := "+call+"\n\tfmt.Println(k, v, w)\n")
						}
					}
				}
			}
		}
	}
	return
}

func c09run(r *report.Run) {
	thorough := r.Tier == "thorough"
	cfgs := c9configs(thorough)
	r.Rule(fmt.Sprintf("call configurations = signatures (all up to arity %d over {int, byte, float64, string}, four rotated representatives for each larger arity up to 5) x variadic tail {none, ...int, ...string, ...float64} x {0, 1, 2 extra arguments, spread slice} x result count 0..3 x callee kind {function, method, function literal} x 8 call forms, constants as arguments and results so that adoption of the declared type shows (byte parameter 200 printed +100 must give 44); templates for the remaining types in every position, variadic slices kept by the callee, recursion depths 1..5000 through functions and methods, 8 hand-written arity/result mismatches and every wrong argument count 0..5 for 0..3 fixed parameters x {no, variadic} tail x 0..2 results x {function, method, function value} x 4 call contexts (each must be an error and must not run the callee); all ordered pairs of 18 signatures as a definition followed by a redefinition (second Eval chunk / package reload), the new definition then called with constants, compared with a fresh VM; non-trivial = configuration with at least one parameter or result", map[bool]int{false: 2, true: 3}[thorough]))
	r.Assume("expected output is what the generator planted; every Go-valid program of the run is also compiled and run by the Go toolchain", "f(g()) forwarding of a multi-value call into an argument list is outside the supported subset")
	r.Set("configurations", len(cfgs))
	cache := oracle.OpenCache("c09")
	defer cache.Save()
	type pk struct {
		name, src string
		wants     []string
		cfgs      []c9cfg
	}
	var pkgs []pk
	for s := 0; s < len(cfgs); s += c9perPkg {
		e := s + c9perPkg
		if e > len(cfgs) {
			e = len(cfgs)
		}
		name := fmt.Sprintf("g%04d", s/c9perPkg)
		src, wants := c9package(name, cfgs[s:e], s)
		pkgs = append(pkgs, pk{name, src, wants, cfgs[s:e]})
	}
	par.Do(len(pkgs), func(k int) {
		p := pkgs[k]
		m := goat.New()
		defer m.Close()
		lr := m.Load(goat.FS(map[string]string{p.name + "/x.go": p.src}), p.name)
		if lr.Failed() {
			r.Fail(&report.Case{Kind: "load", Key: p.name, Files: map[string]string{p.name + "/x.go": p.src}, Want: "package loads", Got: lr.String()})
			return
		}
		for i, c := range p.cfgs {
			res := m.Call(fmt.Sprintf("%s.Drive%d", p.name, k*c9perPkg+i), 0)
			r.Eval(1)
			got := res.Out
			if res.Failed() {
				got = res.String()
			}
			if len(c.Params) > 0 || c.Rets > 0 {
				r.Nontrivial(c.String())
			}
			r.Outcome(got)
			if got != p.wants[i] {
				d, _ := c9render(c, k*c9perPkg+i)
				r.Fail(&report.Case{Kind: "call", Key: c.String() + "\n" + d, Input: c, Want: p.wants[i], Got: got})
			}
			if (k*c9perPkg+i)%1500 == 77 {
				d, _ := c9render(c, k*c9perPkg+i)
				r.Sample(map[string]any{"configuration": c.String(), "source": d, "expected_output": p.wants[i]})
			}
		}
	})
	valid, mismatch := c9templates()
	for _, tc := range valid {
		res := goat.RunMain(map[string]string{"t/t.go": tc[0]}, "t", "t.Main")
		r.Eval(1)
		r.Nontrivial(tc[0])
		got := res.Out
		if res.Failed() {
			got = res.String()
		}
		if got != tc[1] {
			r.Fail(&report.Case{Kind: "template", Key: tc[0], Files: map[string]string{"t/t.go": tc[0]}, Want: tc[1], Got: got})
		}
	}
	for _, src := range mismatch {
		res := goat.RunMain(map[string]string{"t/t.go": src}, "t", "t.Main")
		r.Eval(1)
		r.Nontrivial(src)
		if res.HostPanic != nil || res.Err == nil || strings.Contains(res.Out, "callee") {
			r.Fail(&report.Case{Kind: "mismatch", Key: src, Files: map[string]string{"t/t.go": src}, Want: "an error (wrong number of arguments or results), and the callee does not run", Got: res.String() + " output: " + res.Out})
		}
	}
	c9redefine(r)
	// Go toolchain validation
	var progs []*oracle.Prog
	var wants []string
	for _, p := range pkgs {
		progs = append(progs, &oracle.Prog{Pkg: p.name, Files: map[string]string{"x.go": p.src}, Entry: "Main"})
		wants = append(wants, strings.Join(p.wants, ""))
	}
	for i, tc := range valid {
		pkg := fmt.Sprintf("t%03d", i)
		progs = append(progs, &oracle.Prog{Pkg: pkg, Files: map[string]string{"t.go": strings.Replace(tc[0], "package t\n", "package "+pkg+"\n", 1)}, Entry: "Main"})
		wants = append(wants, tc[1])
	}
	validated := 0
	gres, err := cache.Run(progs)
	if err != nil {
		r.HarnessError("Go oracle: %v", err)
	} else {
		for k, gr := range gres {
			if gr.BuildErr != "" {
				r.HarnessError("generated program rejected by the Go toolchain: %s", gr.BuildErr)
			} else if gr.Out != wants[k] || gr.Panicked {
				r.HarnessError("planted expectation disagrees with the Go toolchain for %s: %s", progs[k].Pkg, c12diff(gr.Out, wants[k]))
			} else {
				validated++
			}
		}
	}
	r.Set("traces_validated_against_impl", validated)
}

// redefinition: a function defined with one signature and defined again with another (second Eval chunk, or a reload
// of its package) must from then on deliver arguments and results by the NEW declared types.  Oracle: a fresh VM that
// only ever saw the second definition (differential; the typed behaviour itself is Go-validated by the configurations).
type c9def struct{ sig, body, call string }

func c9defs() []c9def {
	var out []c9def
	for _, t := range []string{"int", "byte", "float64", "int8", "uint32"} {
		out = append(out,
			c9def{"(a " + t + ") " + t, "fmt.Println(a+100, a/3)\n\treturn 100", "r := f(100)\n\tfmt.Println(r+100, r/3)"},
			c9def{"(xs ..." + t + ") " + t, "fmt.Println(len(xs), xs[0]+100, xs[0]/3)\n\treturn xs[0]", "r := f(100, 7)\n\tfmt.Println(r+100, r/3)"},
			c9def{"(s string, xs ..." + t + ") (" + t + ", string)", "if len(xs) == 0 {\n\t\treturn 100, s\n\t}\n\treturn xs[len(xs)-1] / 3, s", "r, s := f(\"k\", 1, 100)\n\tq, _ := f(\"j\")\n\tfmt.Println(r+100, r/3, s, q+100, q/3)"},
		)
	}
	out = append(out, c9def{"(a string) string", "return a + \"!\"", "fmt.Println(f(\"s\"))"}, c9def{"(xs ...string) int", "return len(xs)", "fmt.Println(f(\"s\", \"t\"), f())"}, c9def{"()", "fmt.Println(\"none\")", "f()"})
	return out
}

func c9redefine(r *report.Run) {
	defs := c9defs()
	src := func(d c9def, pkg string) string {
		return "package " + pkg + "\n\nimport \"fmt\"\n\nfunc f" + d.sig + " {\n\t" + d.body + "\n}\n\nfunc Use() {\n\t" + d.call + "\n}\n"
	}
	chunk := func(d c9def) string {
		return "import \"fmt\"\nfunc f" + d.sig + " {\n\t" + d.body + "\n}\nfunc Use() {\n\t" + d.call + "\n}\n"
	}
	fresh := make([]string, len(defs))
	for j, d := range defs {
		res := goat.RunMain(map[string]string{"q/q.go": src(d, "q")}, "q", "q.Use")
		fresh[j] = res.Out
		if res.Failed() {
			fresh[j] = res.String()
			r.Fail(&report.Case{Kind: "redefine", Key: "fresh: " + src(d, "q"), Want: "runs", Got: fresh[j]})
		}
	}
	type job struct{ i, j int }
	var jobs []job
	for i := range defs {
		for j := range defs {
			if i != j {
				jobs = append(jobs, job{i, j})
			}
		}
	}
	par.Do(len(jobs), func(k int) {
		i, j := jobs[k].i, jobs[k].j
		for _, via := range []string{"Eval", "Load", "Eval, old one called first"} {
			m := goat.New()
			var r1, r2, r3 goat.Result
			imports := map[string]string{}
			switch via {
			case "Load":
				r1 = m.Load(goat.FS(map[string]string{"q/q.go": src(defs[i], "q")}), "q")
				r2 = m.Load(goat.FS(map[string]string{"q/q.go": src(defs[j], "q")}), "q")
				m.Out.Reset()
				r3 = m.Call("q.Use", 0)
			default:
				r1 = m.Eval(nil, chunk(defs[i]), goatlang.WithEvalImports(imports))
				if via != "Eval" {
					m.Eval(nil, "Use()", goatlang.WithEvalImports(imports))
				}
				r2 = m.Eval(nil, chunk(defs[j]), goatlang.WithEvalImports(imports))
				m.Out.Reset()
				r3 = m.Eval(nil, "Use()", goatlang.WithEvalImports(imports))
			}
			r.Eval(1)
			key := fmt.Sprintf("func f%s redefined as func f%s (%s), then %s", defs[i].sig, defs[j].sig, via, strings.ReplaceAll(defs[j].call, "\n\t", "; "))
			r.Nontrivial(key)
			got := m.Out.String()
			if r1.Failed() || r2.Failed() || r3.Failed() {
				got = "definition 1: " + r1.String() + "; definition 2: " + r2.String() + "; call: " + r3.String()
			}
			if got != fresh[j] {
				r.Fail(&report.Case{Kind: "redefine", Key: key, Want: fresh[j], Got: got})
			}
			m.Close()
		}
	})
}

func c09rerun(c *report.Case) (bool, string) {
	switch c.Kind {
	case "redefine":
		rr := report.New("C09", "quick")
		c9redefine(rr)
		return rr.Violations() > 0, fmt.Sprintf("%d failing cases in the redefinition family", rr.Violations())
	}
	switch c.Kind {
	case "call":
		var cfg c9cfg
		if !remarshal(c.Input, &cfg) {
			return false, "bad input"
		}
		src, wants := c9package("g0000", []c9cfg{cfg}, 0)
		res := goat.RunMain(map[string]string{"g0000/x.go": src}, "g0000", "g0000.Drive0")
		got := res.Out
		if res.Failed() {
			got = res.String()
		}
		return got != wants[0], got
	case "template", "load":
		for name := range c.Files {
			dir := strings.Split(name, "/")[0]
			entry := dir + ".Main"
			if c.Kind == "load" {
				entry = ""
			}
			res := goat.RunMain(c.Files, dir, entry)
			got := res.Out
			if res.Failed() {
				got = res.String()
			}
			return got != c.Want, got
		}
	case "mismatch":
		res := goat.RunMain(c.Files, "t", "t.Main")
		return res.HostPanic != nil || res.Err == nil || strings.Contains(res.Out, "callee"), res.String() + " output: " + res.Out
	}
	return false, "unknown kind"
}

var _ = goatlang.Nil

func init() { register("C09", c09run, c09rerun) }
