package props

import (
	"bytes"
	"fmt"
	"regexp"
	"sort"
	"strings"

	"github.com/philhassey/goatlang"

	"verif/internal/par"
	"verif/internal/report"
)

// C02 — the bytecode optimizer is observationally transparent.
//
// Every corpus program (test-table inputs, the quick corpora of C04, C06, C08,
// C11, C12, C18 and a dedicated fusion-window enumeration: one template per
// peephole rule x operand types x syntactic neighbourhoods x near misses) is
// compiled and run by the REAL Load/Eval twice: with the optimizer switch off
// and on.  Oracle: equal stdout, returned values (String + dynamic type),
// success/failure and the (function, line) of every line of the error text.

var c02opRe = regexp.MustCompile(`:\d+:\d+: ([A-Z]+)`)

var c02fused = []string{"LOCALINCDEC", "LOCALADD", "LOCALSUB", "LOCALMUL", "LOCALDIV", "FASTGET", "FASTSET", "FASTGETINT", "FASTSETINT", "FASTCALLATTR", "FASTCALL", "FASTGETATTR", "FASTSETATTR", "INCDEC", "PASS"}

// fusion-window programs ---------------------------------------------------------------

type c02tpl struct {
	text  string
	typed bool // mentions T: instantiate for every numeric type
}

var c02exprs = []c02tpl{
	{"a + b", true}, {"a - b", true}, {"a * b", true}, {"a / b", true}, {"a + 3", true}, {"a - 3", true}, {"3 + a", true}, {"a % b", false},
	{`int(a) + m["k"]`, false}, {"int(a) + s[1]", false}, {"int(a) + o.n", false}, {"o.Get(int(a))", false}, {"id(int(a))", false}, {"G + int(a)", false},
	{"a /\n\t\tb", true}, {"a +\n\t\tb", true}, {"a *\n\t\tb", true}, {"a -\n\t\tb", true}, {"boom(\n\t\tint(a))", false}, {"o.Boom(\n\t\tint(a))", false}, {"s[int(a)]", false}, {"o.s[int(b)+\n\t\t1]", false},
	{"int(a) + o.s[1]", false}, {`int(a) + o.m["k"]`, false}, {`m["k"] + s[1]`, false}, {"o.n + o.n", false}, {"int(a) + fm[0.5]", false}, {"s[len(s)-1]", false}, {"int(b) - 0", false}, {"o.p.n + 1", false}, {"o.Sum(int(a), 1, 2, 3)", false}, {"o.Sum(int(a))", false}, {"o.Sum(1, s...)", false}, {"vsum(int(a), 2, 3)", false}, {"vsum()", false}, {"vsum(s...)", false}, {"a + 1 + 2", true}, {"a - 1 + 2", true}, {"a + 1 - 1", true},
	// operands in their zero state: reads of nil maps and slices yield zero values / faults, identically in both modes
	{`int(a) + nm["k"]`, false}, {"int(a) + nfm[0.5]", false}, {"int(a) + nim[3]", false}, {"int(a) + len(ns) + len(nm)", false}, {"int(a) + ns[0]", false}, {"int(a) + no.n", false}, {"int(a) + o.q", false}, {`int(a) + o.nm["k"]`, false}, {`len(sm["k"]) + int(a)`, false}, {`len(nsm["k"]) + int(a)`, false},
}

var c02stmts = []c02tpl{
	{"a++", true}, {"a--", true}, {"a += 3", true}, {"a -= 3", true}, {"a = a + 1", true}, {"a = a - 1", true}, {"a = b + a", true}, {"a *= b", true},
	{`m["k"] = int(a)`, false}, {"s[1] = int(a)", false}, {"o.n = int(a)", false}, {"o.n++", false}, {`m["k"]++`, false}, {"s[1] += int(a)", false}, {"G++", false},
	{"o.n += s[1]", false}, {`m["k"] += o.n`, false}, {"o.s[1] = int(a)", false}, {"o.p.n = int(a)", false}, {"fm[0.5] = int(a)", false}, {"s = append(s, int(a))", false}, {"o.Add(int(a))", false},
	// a field computed from ANOTHER field plus a constant (looks like the in-place increment window), stores into zero-state operands
	{"o.q = o.n + 3", false}, {"o.q = o.n - 3", false}, {"o.n = o.q + 1", false}, {"o.p.n = o.n + 1", false}, {"o.q = o.q + 1", false}, {"o.q += 2", false}, {"o.q++", false}, {`nm["k"] = int(a)`, false}, {"ns[0] = int(a)", false}, {"no.n = int(a)", false}, {"nim[3] = int(a)", false}, {"ns = append(ns, int(a))", false}, {`sm["k"] = "v"`, false}, {"im[3] = int(a)", false}, {"im[3]++", false}, {"bs[1] = 300 - 45", false}, {"bs[1]++", false}, {"bs[1] += 200", false},
	// a local's field as the last operand of a short-circuit operator or a loop condition (the right operand is optimized
	// on its own, before the jump over it is measured); two constants added to a local in a row
	{"if c && o.ok {\n\tr = 7\n}", false}, {"if c || o.ok {\n\tr = 7\n}", false}, {"if !c && !o.ok {\n\tr = 7\n}", false}, {"for i := 0; i < 3 && o.n > i; i++ {\n\tr++\n}", false}, {"for o.q < 2 && o.p.n > 0 {\n\to.q++\n}", false},
	{"if a+1-1 == a {\n\tr = 1\n}", true}, {"if a+1+2 == a+3 {\n\tr = 1\n}", true}, {"if b-1+1 != b {\n\tr = 1\n}", true},
	{"a = a + 1 + 2", true}, {"a = a - 1 + 2", true}, {"a = a + 1 - 1", true}, {"r = int(a) + 1 + 2 - 3", false},
	// failing stores and calls written over two lines (the reported line must not depend on fusion)
	{"ns[\n\t0] = int(a)", false}, {"nm[\n\t\"k\"] = int(a)", false}, {"no.\n\tn = int(a)", false}, {"nim[\n\t3] += int(a)", false}, {"r = o.\n\tBoom(9)", false}, {"r = boom(\n\t9)", false}, {"r = no.\n\tGet(1)", false},
	// the same through the hidden slots of the ordered paths (a call on the right, a tuple), and a spread call of a method
	{"no.\n\tn += id(1)", false}, {"no.\n\tn, o.n = int(a), 2", false}, {"o.q, no.\n\tn = 1, int(a)", false}, {"o.p.\n\tn += id(int(a))", false}, {"r = no.\n\tSum(s...)", false}, {"r = o.\n\tSum(s...)", false},
}

// neighbourhoods with a hole %E (an int-valued expression) or %S (a statement)
var c02exprHoods = []string{
	"r = int(%E)",
	"if int(%E) > 0 {\n\tr = 1\n}",
	"if c && int(%E) > 0 {\n\tr = 1\n} else {\n\tr = 2\n}",
	"if c || int(%E) > 100 {\n\tr = 1\n}",
	"if !c || int(%E) > 100 {\n\tr = 1\n}",
	"for i := 0; i < int(%E) && i < 3; i++ {\n\tr++\n}",
	"switch int(%E) {\ncase 1:\n\tr = 1\ncase 8:\n\tr = 8\ndefault:\n\tr = 2\n}",
	"switch {\ncase int(%E) > 3:\n\tr = 1\ndefault:\n\tr = 2\n}",
	"r = id(int(%E))",
	"s = append(s, int(%E))",
	"for _, v := range []int{int(%E), int(%E)} {\n\tr += v\n}",
	"r = o.Get(int(%E))",
	"x, y := int(%E), int(%E)\nr = x*2 + y",
}

var c02stmtHoods = []string{
	"%S",
	"%S\n%S",
	"if c {\n\t%S\n}",
	"if !c {\n\tr = 1\n} else {\n\t%S\n}",
	"if c {\n\tr = 1\n\t%S\n} else {\n\t%S\n\tr = 2\n}",
	"for i := 0; i < 2; i++ {\n\t%S\n}",
	"for i := 0; i < 3; i++ {\n\tif i == 1 {\n\t\tcontinue\n\t}\n\t%S\n}",
	"for i := 0; i < 3; i++ {\n\t%S\n\tif i == 1 {\n\t\tbreak\n\t}\n}",
	"for _, v := range s {\n\tr += v\n\t%S\n}",
	"switch {\ncase c:\n\t%S\ndefault:\n\tr = 3\n}",
	"switch r {\ncase 1:\n\tr = 5\ndefault:\n\t%S\n\tbreak\n}",
	"for i := 0; i < 2; %S {\n\ti++\n}",
}

const c02decls = `type P struct {
	n int
}

type O struct {
	n  int
	m  map[string]int
	s  []int
	p  *P
	q  int
	nm map[string]int
	ok bool
}

func (o *O) Get(a int) int {
	return o.n + a
}

func (o *O) Add(a int) {
	o.n += a
}

func (o *O) Sum(a int, rest ...int) int {
	t := a + o.n
	for _, r := range rest {
		t += r
	}
	return t + len(rest)*100
}

func vsum(xs ...int) int {
	t := 0
	for _, x := range xs {
		t += x
	}
	return t + len(xs)*100
}

func pollute() int {
	var a uint8 = 200
	var b float64 = 1.5
	var c int8 = -3
	var d uint32 = 4000000000
	e := "s"
	f := []int{1}
	g, h, i, j := a, b, c, d
	var k uint8 = 9
	l, m, n, o := b, a, d, c
	p, q, r, s2 := a, b, a, b
	t, u, v, w := c, d, c, d
	return int(a) + int(b) + int(c) + int(d%7) + len(e) + len(f) + int(g) + int(h) + int(i) + int(j%7) + int(k) + int(l) + int(m) + int(n%7) + int(o) + int(p) + int(q) + int(r) + int(s2) + int(t) + int(u%7) + int(v) + int(w%7)
}

var G = 5

func Reset() {
	G = 5
}

func id(a int) int {
	return a
}

func boom(a int) int {
	if a == 9 {
		panic("boom")
	}
	return a
}

func (o *O) Boom(a int) int {
	if a == 9 {
		panic("Boom")
	}
	return a
}

`

func c02indent(s, ind string) string {
	var b strings.Builder
	for _, l := range strings.Split(s, "\n") {
		b.WriteString(ind + l + "\n")
	}
	return b.String()
}

func corpusFusion() []cItem {
	types := []c4T{c4i32, c4i8, c4u8, c4u32, c4f64}
	var items []cItem
	var funcs []string
	var calls []cCall
	pkgIdx := 0
	pkg := func() string { return fmt.Sprintf("f%04d", pkgIdx) }
	flush := func() {
		if len(funcs) == 0 {
			return
		}
		p := pkg()
		src := "package " + p + "\n\n" + c02decls + strings.Join(funcs, "\n")
		for i := range calls {
			calls[i].Fn = p + "." + calls[i].Fn
		}
		items = append(items, cItem{Name: "fusion/" + p, Files: map[string]string{p + "/x.go": src}, Dir: p, Calls: calls})
		funcs, calls = nil, nil
		pkgIdx++
	}
	add := func(body string, t c4T) {
		name := fmt.Sprintf("F%d", len(funcs))
		tn := c4name[t]
		fn := fmt.Sprintf("func %s(a %s, b %s, c bool) int {\n\to := &O{n: 7, m: map[string]int{\"k\": 4}, s: []int{1, 2, 3}, p: &P{n: 9}}\n\tm := map[string]int{\"k\": 4}\n\tfm := map[float64]int{0.5: 6}\n\ts := []int{1, 2, 3}\n\tvar nm map[string]int\n\tvar nfm map[float64]int\n\tvar nim map[int]int\n\tvar ns []int\n\tvar no *O\n\t_ = no\n\tvar nsm map[string]string\n\tsm := map[string]string{\"k\": \"vv\"}\n\tim := map[int]int{3: 1}\n\tbs := []byte{1, 250}\n\tr := 0\n%s\treturn r*100000 + int(a)*1000 + o.n*100 + m[\"k\"]*10 + s[1] + o.p.n + fm[0.5] + len(s) + o.s[1] + G + o.q*7 + len(nm) + len(nfm) + len(nim) + len(ns)*3 + len(sm[\"k\"]) + im[3]*11 + int(bs[1])*13 + len(nsm)\n}\n", name, tn, tn, c02indent(body, "\t"))
		// W calls F from a frame with live locals, right after another function (pollute) has used the same stack region for
		// locals of every numeric type: the result must not depend on where F's frame sits on the stack,
		// and F must not touch its caller's slots (checked by C07 as a differential between the two calls)
		fn += fmt.Sprintf("\nfunc W%s(a %s, b %s, c bool) int {\n\tp0, p1, p2 := 11, 22, 33\n\tpollute()\n\tr := %s(a, b, c)\n\tif p0 != 11 || p1 != 22 || p2 != 33 {\n\t\treturn 777777\n\t}\n\treturn r\n}\n", name[1:], tn, tn, name)
		funcs = append(funcs, fn)
		vals := [][2]float64{{5, 3}, {9, 1}, {100, 7}, {5, 0}, {1, 2}}
		switch t {
		case c4i8:
			vals = append(vals, [2]float64{127, 1}, [2]float64{-128, -1}, [2]float64{-7, 2})
		case c4u8:
			vals = append(vals, [2]float64{255, 1}, [2]float64{0, 1}, [2]float64{200, 100})
		case c4i32:
			vals = append(vals, [2]float64{2147483647, 1}, [2]float64{-2147483648, -1}, [2]float64{-7, 2})
		case c4u32:
			vals = append(vals, [2]float64{4294967295, 1}, [2]float64{0, 1})
		case c4f64:
			vals = append(vals, [2]float64{0.5, 0.25}, [2]float64{-0.0, 1}, [2]float64{1e21, 3}, [2]float64{9007199254740992, 1}, [2]float64{1e-20, 1})
		}
		for _, v := range vals {
			for _, cb := range []bool{true, false} {
				args := []goatlang.Value{c4value(t, v[0]), c4value(t, v[1]), goatlang.Bool(cb)}
				calls = append(calls, cCall{Fn: "Reset"}, cCall{Fn: name, NRet: 1, Args: args}, cCall{Fn: "Reset"}, cCall{Fn: "W" + name[1:], NRet: 1, Args: args})
			}
		}
		if len(funcs) == 40 {
			flush()
		}
	}
	for _, e := range c02exprs {
		ts := types[:1]
		if e.typed {
			ts = types
		}
		for _, t := range ts {
			if t == c4f64 && strings.Contains(e.text, "%") {
				continue
			}
			for _, h := range c02exprHoods {
				add(strings.ReplaceAll(h, "%E", e.text), t)
			}
		}
	}
	for _, st := range c02stmts {
		ts := types[:1]
		if st.typed {
			ts = types
		}
		for _, t := range ts {
			for _, h := range c02stmtHoods {
				if strings.Contains(h, "; %S {") && (strings.Contains(st.text, "append") || strings.HasPrefix(st.text, "o.Add")) {
					continue // not a simple statement usable as a for-post statement in Go
				}
				add(strings.ReplaceAll(h, "%S", st.text), t)
			}
		}
	}
	flush()
	return items
}

func c02corpus(r *report.Run) []cItem {
	thorough := r.Tier == "thorough"
	var items []cItem
	hv, err := corpusHarvest()
	if err != nil {
		r.HarnessError("harvest: %v", err)
	}
	items = append(items, hv...)
	r.Set("items_test_tables", len(hv))
	fu := corpusFusion()
	items = append(items, fu...)
	r.Set("items_fusion_packages", len(fu))
	items = append(items, corpusWide(cWideWidths(thorough))...)
	calls := corpusCalls() // C07's statement forms: calls in every expression position, hidden-slot paths, builtins
	items = append(items, calls...)
	r.Set("items_call_forms", len(calls))
	n4 := corpusC04(thorough, 6)
	items = append(items, n4...)
	maxN6, fl6, maxN8, d11, f12, l18 := 5, 2, 4, 3, 40, 4
	if thorough {
		maxN6, fl6, maxN8, d11, f12, l18 = 5, 3, 5, 3, 100, 5
	}
	items = append(items, corpusC06(maxN6, fl6)...)
	items = append(items, corpusC08(maxN8)...)
	items = append(items, corpusC11(2, d11)...)
	items = append(items, corpusC12(f12)...)
	items = append(items, corpusC18(l18)...)
	return items
}

type c02replay struct {
	Name string `json:"name"`
	Step int    `json:"step"`
}

func c02observeAll(items []cItem, optimize bool, dumps []map[string]int, deadline func() bool) [][]string {
	goatlang.VerifSetOptimize(optimize)
	defer goatlang.VerifSetOptimize(true)
	out := make([][]string, len(items))
	par.DoChunk(len(items), 4, func(i int) {
		if deadline() {
			return
		}
		var buf bytes.Buffer
		out[i] = cObserve(&items[i], goatlang.WithCodeDump(&buf))
		if dumps != nil {
			cnt := map[string]int{}
			for _, mm := range c02opRe.FindAllStringSubmatch(buf.String(), -1) {
				cnt[mm[1]]++
			}
			dumps[i] = cnt
		}
	})
	return out
}

func c02run(r *report.Run) {
	r.Rule("every corpus program (harvested test-table inputs and file trees; fusion-window templates = 22 expression and 22 statement windows x operand types x 13 + 12 syntactic neighbourhoods incl. near misses; wide-frame programs; the call and statement forms of C07 (calls in every expression position, targets and receivers evaluated through hidden slots, builtins); all C04 numeric forms with spread operands; the C06, C08, C11, C12, C18 corpora) executed by the real Load/Eval/Call with the optimizer switch off and on; non-trivial = program whose optimized code contains at least one fused opcode")
	r.Assume("the optimizer switch makes compiler.optimize the identity (the !c.Optimize branch); each run asserts no fused opcode appears with the switch off and every fused opcode appears with it on", "inputs mentioning rand./time./os. are excluded (nondeterministic)", "values whose text contains addresses (functions) are compared by type only")
	items := c02corpus(r)
	r.Set("corpus_items", len(items))
	dumpsOn := make([]map[string]int, len(items))
	dumpsOff := make([]map[string]int, len(items))
	off := c02observeAll(items, false, dumpsOff, r.Expired)
	on := c02observeAll(items, true, dumpsOn, r.Expired)
	totalOn := map[string]int{}
	steps := 0
	for i := range items {
		if off[i] == nil || on[i] == nil {
			continue
		}
		fusedHere := 0
		for op, n := range dumpsOn[i] {
			totalOn[op] += n
		}
		for _, op := range c02fused {
			fusedHere += dumpsOn[i][op]
			if dumpsOff[i][op] > 0 && op != "INCDEC" && op != "PASS" { // INCDEC is also what ++/-- compile to without the optimizer
				r.HarnessError("fused opcode %s present with the optimizer switched off in %s", op, items[i].Name)
			}
		}
		if fusedHere > 0 {
			r.Nontrivial(items[i].Name)
		}
		if !strings.HasPrefix(items[i].Name, "test-") && !(strings.HasPrefix(off[i][0], "ok") && strings.HasPrefix(on[i][0], "ok")) {
			// a generated package that does not even load hides all its functions from the comparison: the generators
			// only emit valid programs, so this is a defect of the harness or of goatlang, never a pass
			r.HarnessError("generated corpus item %s does not load or run: off: %s on: %s", items[i].Name, trunc(strings.Join(off[i], " | "), 300), trunc(strings.Join(on[i], " | "), 300))
		}
		n := len(off[i])
		if len(on[i]) != n {
			r.Fail(&report.Case{Kind: "steps", Key: items[i].Name, Input: c02replay{items[i].Name, 0}, Files: items[i].Files, Want: fmt.Sprintf("%d observable steps (optimizer off): %s", n, trunc(strings.Join(off[i], " | "), 500)), Got: fmt.Sprintf("%d steps (optimizer on): %s", len(on[i]), trunc(strings.Join(on[i], " | "), 500))})
			continue
		}
		for k := 0; k < n; k++ {
			steps++
			if off[i][k] != on[i][k] {
				what := "load/eval"
				if k > 0 {
					c := items[i].Calls[k-1]
					var as []string
					for _, a := range c.Args {
						as = append(as, a.String())
					}
					what = fmt.Sprintf("call %s(%s)", c.Fn, strings.Join(as, ", "))
				}
				src := items[i].EvalSrc
				if src == "" {
					src = c02funcSource(&items[i], k)
				}
				r.Fail(&report.Case{Kind: "differs", Key: items[i].Name + " " + what + "\n" + src, Input: c02replay{items[i].Name, k}, Want: "optimizer off: " + off[i][k], Got: "optimizer on:  " + on[i][k]})
				break
			}
			if k%100 == 0 {
				r.Outcome(on[i][k])
			}
		}
		if i%997 == 11 && len(on[i]) > 1 {
			r.Sample(map[string]any{"item": items[i].Name, "steps": len(on[i]), "observation_of_step_1": on[i][1], "fused_opcodes_in_optimized_code": dumpsOn[i]})
		}
	}
	r.Eval(steps * 2)
	var missing []string
	for _, op := range c02fused {
		if totalOn[op] == 0 {
			missing = append(missing, op)
		}
	}
	if len(missing) > 0 {
		r.HarnessError("vacuity: fused opcodes never produced by the corpus: %v", missing)
	}
	fc := map[string]int{}
	for _, op := range c02fused {
		fc[op] = totalOn[op]
	}
	r.Set("fused_opcode_occurrences", fc)
	r.Set("program_pairs_compared", len(items))
	r.Set("observed_steps_per_mode", steps)
	if r.Expired() {
		r.NotExhaustive("internal deadline reached")
	}
}

// c02funcSource extracts the source of the function called at step k (for readable reports).
func c02funcSource(it *cItem, k int) string {
	if k == 0 || k-1 >= len(it.Calls) {
		return ""
	}
	fn := it.Calls[k-1].Fn
	if j := strings.LastIndexByte(fn, '.'); j >= 0 {
		fn = fn[j+1:]
	}
	var names []string
	for n := range it.Files {
		names = append(names, n)
	}
	sort.Strings(names)
	for _, n := range names {
		src := it.Files[n]
		if a := strings.Index(src, "func "+fn+"("); a >= 0 {
			if e := strings.Index(src[a:], "\n}\n"); e >= 0 {
				return src[a : a+e+3]
			}
		}
	}
	return ""
}

func c02rerun(c *report.Case) (bool, string) {
	var in c02replay
	if !remarshal(c.Input, &in) {
		return false, "bad input"
	}
	rr := report.New("C02", "quick")
	var target *cItem
	items := c02corpus(rr)
	for i := range items {
		if items[i].Name == in.Name {
			target = &items[i]
		}
	}
	if target == nil {
		rr.Tier = "thorough"
		items = c02corpus(rr)
		for i := range items {
			if items[i].Name == in.Name {
				target = &items[i]
			}
		}
	}
	if target == nil {
		return false, "item not found"
	}
	one := []cItem{*target}
	never := func() bool { return false }
	off := c02observeAll(one, false, nil, never)
	on := c02observeAll(one, true, nil, never)
	same := len(off[0]) == len(on[0])
	for k := 0; same && k < len(off[0]); k++ {
		same = off[0][k] == on[0][k]
	}
	return !same, "off: " + trunc(strings.Join(off[0], " | "), 600) + "\non:  " + trunc(strings.Join(on[0], " | "), 600)
}

func init() { register("C02", c02run, c02rerun) }
