package props

import (
	"bytes"
	"fmt"
	"go/ast"
	"go/parser"
	"go/token"
	"math"
	"regexp"
	"strings"

	"github.com/philhassey/goatlang"

	"verif/internal/goat"
	"verif/internal/par"
	"verif/internal/report"
)

// C05 — expressions group by Go's operator precedence and associativity.
//
// Space: every expression  u0 x0 op1 u1 x1 ... opn un xn  over the 19 binary
// operators, unary prefixes {none,-,^,!} and one optional parenthesised
// contiguous sub-range (with its own optional prefix), for every typing of
// the operands as int32/bool that is well-typed under Go's grouping.
// Oracle 1 (structure): go/parser's AST, printed in goatlang's prefix form,
// must equal what Eval(WithTreeDump) prints.  Oracle 2 (value): native Go
// evaluation of go/parser's AST under operand assignments chosen (by
// exhaustive search over a pool) to distinguish Go's grouping from every
// alternative well-typed bracketing.

var c05ops = []string{"*", "/", "%", "<<", ">>", "&", "&^", "+", "-", "|", "^", "==", "!=", "<", "<=", ">", ">=", "&&", "||"}
var c05names = []string{"a", "b", "c", "d", "e"}

type c05type int

const (
	tInt c05type = iota
	tBool
)

// goatTree prints a go/ast expression in goatlang's tree-dump form.
func c05tree(e ast.Expr) string {
	switch x := e.(type) {
	case *ast.Ident:
		return x.Name
	case *ast.ParenExpr:
		return c05tree(x.X)
	case *ast.UnaryExpr:
		switch x.Op {
		case token.SUB:
			return "(negate " + c05tree(x.X) + ")"
		case token.XOR:
			return "(complement " + c05tree(x.X) + ")"
		case token.NOT:
			return "(! " + c05tree(x.X) + ")"
		}
	case *ast.BinaryExpr:
		if x.Op == token.AND_NOT { // goatlang reads `a &^ b` as `a & ^b`, which denotes the same value
			return "(& " + c05tree(x.X) + " (complement " + c05tree(x.Y) + "))"
		}
		return "(" + x.Op.String() + " " + c05tree(x.X) + " " + c05tree(x.Y) + ")"
	}
	return "?"
}

// c05typings returns every assignment of types to the identifiers that makes e well-typed with result type want.
func c05typings(e ast.Expr, want c05type) []map[string]c05type {
	merge := func(as, bs []map[string]c05type) []map[string]c05type {
		var out []map[string]c05type
		for _, a := range as {
			for _, b := range bs {
				m := map[string]c05type{}
				for k, v := range a {
					m[k] = v
				}
				for k, v := range b {
					m[k] = v
				}
				out = append(out, m)
			}
		}
		return out
	}
	switch x := e.(type) {
	case *ast.Ident:
		return []map[string]c05type{{x.Name: want}}
	case *ast.ParenExpr:
		return c05typings(x.X, want)
	case *ast.UnaryExpr:
		switch x.Op {
		case token.SUB, token.XOR:
			if want != tInt {
				return nil
			}
			return c05typings(x.X, tInt)
		case token.NOT:
			if want != tBool {
				return nil
			}
			return c05typings(x.X, tBool)
		}
	case *ast.BinaryExpr:
		switch x.Op {
		case token.LAND, token.LOR:
			if want != tBool {
				return nil
			}
			return merge(c05typings(x.X, tBool), c05typings(x.Y, tBool))
		case token.EQL, token.NEQ:
			if want != tBool {
				return nil
			}
			return append(merge(c05typings(x.X, tInt), c05typings(x.Y, tInt)), merge(c05typings(x.X, tBool), c05typings(x.Y, tBool))...)
		case token.LSS, token.LEQ, token.GTR, token.GEQ:
			if want != tBool {
				return nil
			}
			return merge(c05typings(x.X, tInt), c05typings(x.Y, tInt))
		default:
			if want != tInt {
				return nil
			}
			return merge(c05typings(x.X, tInt), c05typings(x.Y, tInt))
		}
	}
	return nil
}

type c05val struct {
	i int32
	b bool
	t c05type
}

type c05panic struct{}

// c05eval: native Go evaluation (int32 / bool semantics are the harness's own compiled Go).
func c05eval(e ast.Expr, env map[string]c05val) c05val {
	switch x := e.(type) {
	case *ast.Ident:
		return env[x.Name]
	case *ast.ParenExpr:
		return c05eval(x.X, env)
	case *ast.UnaryExpr:
		v := c05eval(x.X, env)
		switch x.Op {
		case token.SUB:
			return c05val{i: -v.i}
		case token.XOR:
			return c05val{i: ^v.i}
		case token.NOT:
			return c05val{b: !v.b, t: tBool}
		}
	case *ast.BinaryExpr:
		if x.Op == token.LAND {
			l := c05eval(x.X, env)
			if !l.b {
				return c05val{b: false, t: tBool}
			}
			return c05val{b: c05eval(x.Y, env).b, t: tBool}
		}
		if x.Op == token.LOR {
			l := c05eval(x.X, env)
			if l.b {
				return c05val{b: true, t: tBool}
			}
			return c05val{b: c05eval(x.Y, env).b, t: tBool}
		}
		l, r := c05eval(x.X, env), c05eval(x.Y, env)
		bv := func(b bool) c05val { return c05val{b: b, t: tBool} }
		switch x.Op {
		case token.ADD:
			return c05val{i: l.i + r.i}
		case token.SUB:
			return c05val{i: l.i - r.i}
		case token.MUL:
			return c05val{i: l.i * r.i}
		case token.QUO:
			if r.i == 0 {
				panic(c05panic{})
			}
			return c05val{i: l.i / r.i}
		case token.REM:
			if r.i == 0 {
				panic(c05panic{})
			}
			return c05val{i: l.i % r.i}
		case token.SHL:
			if r.i < 0 {
				panic(c05panic{})
			}
			return c05val{i: l.i << r.i}
		case token.SHR:
			if r.i < 0 {
				panic(c05panic{})
			}
			return c05val{i: l.i >> r.i}
		case token.AND:
			return c05val{i: l.i & r.i}
		case token.AND_NOT:
			return c05val{i: l.i &^ r.i}
		case token.OR:
			return c05val{i: l.i | r.i}
		case token.XOR:
			return c05val{i: l.i ^ r.i}
		case token.EQL:
			if l.t == tBool {
				return bv(l.b == r.b)
			}
			return bv(l.i == r.i)
		case token.NEQ:
			if l.t == tBool {
				return bv(l.b != r.b)
			}
			return bv(l.i != r.i)
		case token.LSS:
			return bv(l.i < r.i)
		case token.LEQ:
			return bv(l.i <= r.i)
		case token.GTR:
			return bv(l.i > r.i)
		case token.GEQ:
			return bv(l.i >= r.i)
		}
	}
	panic("c05eval: unsupported node")
}

// c05constSafe reports whether the expression, with its operands written as LITERALS, means the same as with int32
// variables: every intermediate value fits int32 and no shift reaches the width. (With literals the expression is a
// constant expression: Go evaluates it exactly, and what goatlang does with constants wider than 32 bits is outside
// the subset; `1 << 63 * -1` is such a case.)
func c05constSafe(e ast.Expr, env map[string]c05val) (ok bool) {
	defer func() {
		if recover() != nil {
			ok = true // a division by zero or a negative shift count fails the same way in both spellings
		}
	}()
	ok = true
	var ev func(e ast.Expr) int64
	fit := func(v int64) int64 {
		if v < math.MinInt32 || v > math.MaxInt32 {
			ok = false
		}
		return v
	}
	ev = func(e ast.Expr) int64 {
		switch x := e.(type) {
		case *ast.Ident:
			v := env[x.Name]
			if v.t == tBool {
				return 0
			}
			return int64(v.i)
		case *ast.ParenExpr:
			return ev(x.X)
		case *ast.UnaryExpr:
			v := ev(x.X)
			switch x.Op {
			case token.SUB:
				return fit(-v)
			case token.XOR:
				return fit(^v)
			}
			return 0
		case *ast.BinaryExpr:
			l, r := ev(x.X), ev(x.Y)
			switch x.Op {
			case token.ADD:
				return fit(l + r)
			case token.SUB:
				return fit(l - r)
			case token.MUL:
				return fit(l * r)
			case token.QUO:
				return fit(l / r)
			case token.REM:
				return fit(l % r)
			case token.SHL:
				if r < 0 {
					panic("negative shift")
				}
				if r > 31 {
					ok = false
					return 0
				}
				return fit(l << uint(r))
			case token.SHR:
				if r < 0 {
					panic("negative shift")
				}
				if r > 31 {
					ok = false
					return 0
				}
				return l >> uint(r)
			case token.AND:
				return l & r
			case token.AND_NOT:
				return l &^ r
			case token.OR:
				return l | r
			case token.XOR:
				return l ^ r
			}
			return 0
		}
		return 0
	}
	ev(e)
	return ok
}

func c05evalSafe(e ast.Expr, env map[string]c05val) (s string) {
	defer func() {
		if r := recover(); r != nil {
			if _, ok := r.(c05panic); ok {
				s = "panic"
				return
			}
			panic(r)
		}
	}()
	v := c05eval(e, env)
	if v.t == tBool {
		return fmt.Sprint(v.b)
	}
	return fmt.Sprint(v.i)
}

// c05units: the expression as a flat sequence of units and operators (a parenthesised group is one unit).
type c05expr struct {
	units []string // rendered operands, e.g. "-a", "(b + c)", "!(d && e)"
	ops   []string
}

func (x c05expr) String() string {
	var b strings.Builder
	for i, u := range x.units {
		if i > 0 {
			b.WriteString(" " + x.ops[i-1] + " ")
		}
		b.WriteString(u)
	}
	return b.String()
}

// c05alts renders every full bracketing of the flat unit/operator sequence.
func c05alts(units []string, ops []string) []string {
	if len(units) == 1 {
		return []string{units[0]}
	}
	var out []string
	for k := 0; k < len(ops); k++ {
		for _, l := range c05alts(units[:k+1], ops[:k]) {
			for _, r := range c05alts(units[k+1:], ops[k+1:]) {
				ls, rs := l, r
				if k > 0 {
					ls = "(" + l + ")"
				}
				if k < len(ops)-1 {
					rs = "(" + r + ")"
				}
				out = append(out, ls+" "+ops[k]+" "+rs)
			}
		}
	}
	return out
}

var c05intPool = []int32{-7, -1, 0, 1, 2, 3, 5}

type c05job struct {
	src  string
	flat c05expr
}

type c05replay struct {
	Src    string           `json:"src"`
	Env    map[string]int32 `json:"env"`
	Bools  map[string]bool  `json:"bools"`
	Struct bool             `json:"struct"`
	Raw    bool             `json:"raw,omitempty"` // Src is a complete program to Eval
}

func c05goatTree(src string) (string, string) {
	m := goat.New()
	defer m.Close()
	var buf bytes.Buffer
	// operands as globals so that the expression compiles
	for _, n := range c05names {
		m.VM.Set("main."+n, goatlang.Int32(1))
	}
	res := m.Eval(nil, src, goatlang.WithTreeDump(&buf))
	return strings.TrimSpace(buf.String()), res.Status()
}

func c05goatValue(src string, env map[string]c05val) string {
	m := goat.New()
	defer m.Close()
	for n, v := range env {
		if v.t == tBool {
			m.VM.Set("main."+n, goatlang.Bool(v.b))
		} else {
			m.VM.Set("main."+n, goatlang.Int32(v.i))
		}
	}
	res := m.Eval(nil, src)
	if res.HostPanic != nil {
		return fmt.Sprintf("HOSTPANIC %v", res.HostPanic)
	}
	if res.Err != nil {
		return "panic"
	}
	if len(res.Rets) != 1 {
		return fmt.Sprintf("%d values", len(res.Rets))
	}
	return res.Rets[0].String()
}

func c05run(r *report.Run) {
	r.Rule("all expressions u0x0 op1 u1x1 .. opn unxn over 19 binary operators, prefixes {none,-,^,!}, one optional parenthesised sub-range, operands as globals / decimal, hexadecimal, octal and binary literals / function locals, on one line and with a line break after every binary operator, every int32/bool typing valid under Go's grouping; non-trivial = expression with >=2 binary operators whose Go grouping differs in structure from at least one alternative bracketing")
	r.Assume("go/parser is the reference for grouping; native Go int32/bool arithmetic in the harness is the reference for values", "operands are distinct identifiers bound as globals; `a &^ b` is accepted as `a & ^b` (same value)")
	thorough := r.Tier == "thorough"
	var jobs []c05job
	prefixes := []string{"", "-", "^", "!"}
	total := 0
	base := 0
	process := func() {
		jobs := jobs // the current batch
		par.DoChunk(len(jobs), 256, func(k0 int) {
			k := base + k0
			_ = k
			if r.Expired() {
				return
			}
			j := jobs[k0]
			e, err := parser.ParseExpr(j.src)
			if err != nil {
				return // e.g. "a - -b" is fine, but "a & &b"-like strings never arise; anything go/parser rejects is not Go
			}
			var typings []map[string]c05type
			typings = append(typings, c05typings(e, tInt)...)
			typings = append(typings, c05typings(e, tBool)...)
			if len(typings) == 0 {
				return
			}
			// structure
			want := c05tree(e)
			got, status := c05goatTree(j.src)
			r.Eval(1)
			if got != want {
				r.Fail(&report.Case{Kind: "structure", Key: j.src, Input: c05replay{Src: j.src, Struct: true}, Want: want, Got: got + " [" + status + "]"})
			}
			// layout: a line break after every binary operator changes nothing
			if ml := c05multiline(j.src); ml != j.src {
				got2, status2 := c05goatTree(ml)
				r.Eval(1)
				if got2 != want {
					r.Fail(&report.Case{Kind: "structure", Key: ml, Input: c05replay{Src: ml, Struct: true}, Want: want, Got: got2 + " [" + status2 + "]"})
				}
			}
			// alternatives that parse to a different structure
			var alts []ast.Expr
			for _, a := range c05alts(j.flat.units, j.flat.ops) {
				ae, err := parser.ParseExpr(a)
				if err != nil {
					continue
				}
				if c05tree(ae) != want {
					alts = append(alts, ae)
				}
			}
			if len(alts) > 0 && len(j.flat.ops) >= 2 {
				r.Nontrivial(j.src)
			}
			if k%9973 == 0 {
				r.Sample(map[string]any{"expr": j.src, "go_grouping": want, "goatlang_tree": got, "typings": len(typings), "alternative_groupings": len(alts)})
			}
			// values
			for _, ty := range typings {
				names := make([]string, 0, len(ty))
				for _, n := range c05names {
					if _, ok := ty[n]; ok {
						names = append(names, n)
					}
				}
				// which alternatives are well-typed under this typing
				var live []ast.Expr
				for _, a := range alts {
					if c05welltyped(a, ty) {
						live = append(live, a)
					}
				}
				// enumerate assignments in a fixed order until every live alternative is distinguished
				dist := make([]bool, len(live))
				remaining := len(live)
				idx := make([]int, len(names))
				used := 0
				first := true
				for tries := 0; tries < 3000; tries++ {
					env := map[string]c05val{}
					for q, n := range names {
						if ty[n] == tBool {
							env[n] = c05val{b: idx[q]%2 == 1, t: tBool}
						} else {
							env[n] = c05val{i: c05intPool[(idx[q]+3)%len(c05intPool)]} // start at 1,2,3,...
						}
					}
					wantV := c05evalSafe(e, env)
					useful := first
					for a := range live {
						if !dist[a] && c05evalSafe(live[a], env) != wantV {
							dist[a] = true
							remaining--
							useful = true
						}
					}
					if useful {
						first = false
						used++
						gotV := c05goatValue(j.src, env)
						r.Eval(1)
						r.Outcome(gotV)
						if gotV != wantV {
							ienv, benv := map[string]int32{}, map[string]bool{}
							for n, v := range env {
								if v.t == tBool {
									benv[n] = v.b
								} else {
									ienv[n] = v.i
								}
							}
							r.Fail(&report.Case{Kind: "value", Key: fmt.Sprintf("%s with %v %v", j.src, ienv, benv), Input: c05replay{Src: j.src, Env: ienv, Bools: benv}, Want: wantV, Got: gotV})
						}
						// the same expression with the operands written as literals, and as locals of a function
						// (different instruction windows: PUSH/CONST and LOCALGET instead of GLOBALGET)
						if used <= 2 {
							for _, mode := range []string{"literals", "locals", "hex", "octal", "binary", "argument"} {
								if mode != "locals" && !c05constSafe(e, env) {
									continue
								}
								src2 := c05respell(j.src, env, names, mode)
								if mode == "argument" { // the literal spelling as the argument of a call (instructions follow the expression)
									src2 = "func wrap(v any) []any {\n\treturn []any{v}\n}\nr := wrap(" + c05respell(j.src, env, names, "literals") + ")\nr[0]\n"
								}
								if mode == "octal" {
									src2 = c05multiline(src2) // and this spelling is written over several lines
								}
								g2 := c05evalSrc(src2)
								r.Eval(1)
								if g2 != wantV {
									r.Fail(&report.Case{Kind: "value-" + mode, Key: src2, Input: c05replay{Src: src2, Raw: true}, Want: wantV, Got: g2})
								}
							}
						}
					}
					if remaining == 0 {
						break
					}
					// next assignment
					q := 0
					for q < len(names) {
						idx[q]++
						lim := len(c05intPool)
						if ty[names[q]] == tBool {
							lim = 2
						}
						if idx[q] < lim {
							break
						}
						idx[q] = 0
						q++
					}
					if q == len(names) {
						break
					}
				}
				r.Add("alternatives_distinguished", len(live)-remaining)
				r.Add("alternatives_equivalent_on_pool", remaining)
			}
		})
		total += len(jobs)
		base += len(jobs)
	}
	flushJobs := func() {
		process()
		jobs = jobs[:0]
	}
	var gen func(n int, withPrefix, withParen bool)
	gen = func(n int, withPrefix, withParen bool) {
		opIdx := make([]int, n)
		for {
			ops := make([]string, n)
			for i, k := range opIdx {
				ops[i] = c05ops[k]
			}
			// paren placements: none, or a contiguous range [i..j] of operands, i<j, not the whole
			type pr struct{ i, j int }
			parens := []pr{{-1, -1}}
			if withParen {
				for i := 0; i <= n; i++ {
					for j := i + 1; j <= n; j++ {
						if i == 0 && j == n {
							continue
						}
						parens = append(parens, pr{i, j})
					}
				}
			}
			for _, p := range parens {
				// units
				nUnits := n + 1
				if p.i >= 0 {
					nUnits = n + 1 - (p.j - p.i)
				}
				// prefix choice per operand (inside parens too) and per group
				nPre := n + 1
				if p.i >= 0 {
					nPre++
				}
				preIdx := make([]int, nPre)
				for {
					var units []string
					var uops []string
					k := 0
					for k <= n {
						if p.i >= 0 && k == p.i {
							var in []string
							for q := p.i; q <= p.j; q++ {
								if q > p.i {
									in = append(in, ops[q-1])
								}
								in = append(in, prefixes[preIdx[q]]+c05names[q])
							}
							units = append(units, prefixes[preIdx[n+1]]+"("+strings.Join(in, " ")+")")
							k = p.j + 1
						} else {
							units = append(units, prefixes[preIdx[k]]+c05names[k])
							k++
						}
						if k <= n {
							uops = append(uops, ops[k-1])
						}
					}
					_ = nUnits
					fe := c05expr{units, uops}
					jobs = append(jobs, c05job{src: fe.String(), flat: fe})
					if len(jobs) >= 200000 {
						flushJobs()
					}
					if !withPrefix {
						break
					}
					// next prefix combination
					q := 0
					for q < nPre {
						preIdx[q]++
						if preIdx[q] < len(prefixes) {
							break
						}
						preIdx[q] = 0
						q++
					}
					if q == nPre {
						break
					}
				}
			}
			// next operator combination
			q := 0
			for q < n {
				opIdx[q]++
				if opIdx[q] < len(c05ops) {
					break
				}
				opIdx[q] = 0
				q++
			}
			if q == n {
				break
			}
		}
	}
	gen(1, true, false)
	gen(2, true, true)
	if thorough {
		gen(3, true, true)
		gen(4, false, false)
	} else {
		gen(3, false, true)
	}
	flushJobs()
	r.Set("expression_strings", total)
	if r.Expired() {
		r.NotExhaustive("internal deadline reached")
	}
}

func c05welltyped(e ast.Expr, ty map[string]c05type) bool {
	var tc func(e ast.Expr) (c05type, bool)
	tc = func(e ast.Expr) (c05type, bool) {
		switch x := e.(type) {
		case *ast.Ident:
			return ty[x.Name], true
		case *ast.ParenExpr:
			return tc(x.X)
		case *ast.UnaryExpr:
			t, ok := tc(x.X)
			if !ok {
				return 0, false
			}
			if x.Op == token.NOT {
				return tBool, t == tBool
			}
			return tInt, t == tInt
		case *ast.BinaryExpr:
			l, ok1 := tc(x.X)
			rr, ok2 := tc(x.Y)
			if !ok1 || !ok2 {
				return 0, false
			}
			switch x.Op {
			case token.LAND, token.LOR:
				return tBool, l == tBool && rr == tBool
			case token.EQL, token.NEQ:
				return tBool, l == rr
			case token.LSS, token.LEQ, token.GTR, token.GEQ:
				return tBool, l == tInt && rr == tInt
			default:
				return tInt, l == tInt && rr == tInt
			}
		}
		return 0, false
	}
	_, ok := tc(e)
	return ok
}

var c05binRe = regexp.MustCompile(` ([-+*/%&|^<>=!]+) `)

// c05multiline breaks the line after every binary operator (operators are written between blanks, prefixes are not).
func c05multiline(src string) string { return c05binRe.ReplaceAllString(src, " $1\n\t") }

// c05respell rewrites the expression with literal operands, or wraps it in a function with local operands.
func c05respell(src string, env map[string]c05val, names []string, mode string) string {
	lit := func(v c05val) string {
		if v.t == tBool {
			return fmt.Sprint(v.b)
		}
		abs := int64(v.i)
		if abs < 0 {
			abs = -abs
		}
		var text string
		switch mode {
		case "hex":
			text = fmt.Sprintf("0X%x", abs)
		case "octal":
			text = fmt.Sprintf("0%o", abs)
			if abs == 0 {
				text = "0"
			}
		case "binary":
			text = fmt.Sprintf("0b%b", abs)
			if abs > 255 {
				text = fmt.Sprintf("0o%o", abs)
			}
		default:
			text = fmt.Sprint(abs)
		}
		if v.i < 0 {
			return "(-" + text + ")" // a negative literal operand needs parentheses to stay one operand
		}
		return text
	}
	if mode != "locals" {
		var b strings.Builder
		for i := 0; i < len(src); i++ {
			ch := src[i]
			if ch >= 'a' && ch <= 'e' {
				if v, ok := env[string(ch)]; ok {
					b.WriteString(lit(v))
					continue
				}
			}
			b.WriteByte(ch)
		}
		return b.String()
	}
	var decl []string
	for _, n := range names {
		v := env[n]
		if v.t == tBool {
			decl = append(decl, fmt.Sprintf("\t%s := %v\n", n, v.b))
		} else {
			decl = append(decl, fmt.Sprintf("\t%s := %d\n", n, v.i))
		}
	}
	return "func f() any {\n" + strings.Join(decl, "") + "\treturn " + src + "\n}\nr := f()\nr\n"
}

func c05evalSrc(src string) string {
	m := goat.New()
	defer m.Close()
	res := m.Eval(nil, src)
	if res.HostPanic != nil {
		return fmt.Sprintf("HOSTPANIC %v", res.HostPanic)
	}
	if res.Err != nil {
		return "panic"
	}
	if len(res.Rets) != 1 {
		return fmt.Sprintf("%d values", len(res.Rets))
	}
	return res.Rets[0].String()
}

func c05rerun(c *report.Case) (bool, string) {
	var in c05replay
	if !remarshal(c.Input, &in) {
		return false, "bad replay input"
	}
	if in.Raw {
		got := c05evalSrc(in.Src)
		return got != c.Want, got
	}
	if in.Struct {
		got, status := c05goatTree(in.Src)
		return got != c.Want, got + " [" + status + "]"
	}
	env := map[string]c05val{}
	for n, v := range in.Env {
		env[n] = c05val{i: v}
	}
	for n, v := range in.Bools {
		env[n] = c05val{b: v, t: tBool}
	}
	got := c05goatValue(in.Src, env)
	return got != c.Want, got
}

func init() { register("C05", c05run, c05rerun) }
