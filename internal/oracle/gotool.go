// Package oracle: O-go, the Go toolchain as an oracle.  Programs are rendered
// into a throw-away module, built once per batch, run in order by a generated
// driver; stdout per program and "ended in a run-time panic" are returned.
// The identical source text is what the checks hand to goatlang.
package oracle

import (
	"bytes"
	"context"
	"crypto/sha256"
	"encoding/gob"
	"encoding/hex"
	"fmt"
	"os"
	"os/exec"
	"path/filepath"
	"regexp"
	"sort"
	"strings"
	"sync"
	"time"
)

// ModPrefix is the module path of the throw-away module. A program's package
// pNNN is imported as "o/pNNN"; goatlang finds it by path shortening.
const ModPrefix = "o"

// Prog is one Go program: a set of files under its own directory tree.
// Files are keyed by path relative to the program root, e.g. "x.go" (the
// entry package, whose clause must be `package <Pkg>`) or "util/u.go".
// Entry is the exported niladic function of the entry package to call.
type Prog struct {
	Pkg   string // package name == directory name, unique within a batch, e.g. p00042
	Files map[string]string
	Entry string // e.g. "Main"
}

type Result struct {
	Out      string
	Panicked bool
	BuildErr string // non-empty: the toolchain rejected the program
}

func (p *Prog) hash() string {
	h := sha256.New()
	keys := make([]string, 0, len(p.Files))
	for k := range p.Files {
		keys = append(keys, k)
	}
	sort.Strings(keys)
	// the package name is part of the text; normalise it so that the same program
	// under another batch position hits the cache
	for _, k := range keys {
		fmt.Fprintf(h, "%s\x00%s\x00", k, strings.ReplaceAll(p.Files[k], p.Pkg, "\x01PKG\x01"))
	}
	fmt.Fprintf(h, "entry=%s", p.Entry)
	return hex.EncodeToString(h.Sum(nil))[:32]
}

// Cache of toolchain answers keyed by program text (the toolchain is fixed in
// this image, so an answer never changes).  Stored under /verif/.cache.
type Cache struct {
	mu    sync.Mutex
	path  string
	m     map[string]Result
	dirty bool
	Hits  int
	Built int
}

func OpenCache(name string) *Cache {
	root := os.Getenv("VERIF_ROOT") // set by bin/check: the directory this checker was built in
	if root == "" {
		root = "/verif"
	}
	c := &Cache{path: filepath.Join(root, ".cache/oracle", name+".gob"), m: map[string]Result{}}
	if os.Getenv("VERIF_NO_ORACLE_CACHE") != "" {
		c.path = ""
		return c
	}
	if f, err := os.Open(c.path); err == nil {
		gob.NewDecoder(f).Decode(&c.m)
		f.Close()
	}
	return c
}

func (c *Cache) Save() {
	c.mu.Lock()
	defer c.mu.Unlock()
	if !c.dirty || c.path == "" {
		return
	}
	os.MkdirAll(filepath.Dir(c.path), 0o755)
	tmp := c.path + ".tmp"
	f, err := os.Create(tmp)
	if err != nil {
		return
	}
	if gob.NewEncoder(f).Encode(c.m) == nil {
		f.Close()
		os.Rename(tmp, c.path)
	} else {
		f.Close()
		os.Remove(tmp)
	}
	c.dirty = false
}

// BatchSize is the number of programs per generated driver binary.
var BatchSize = 1500

// Run returns the toolchain's answer for every program (cache, then build).
func (c *Cache) Run(progs []*Prog) ([]Result, error) {
	res := make([]Result, len(progs))
	var missIdx []int
	hashes := make([]string, len(progs))
	c.mu.Lock()
	for i, p := range progs {
		hashes[i] = p.hash()
		if r, ok := c.m[hashes[i]]; ok {
			res[i] = r
			c.Hits++
		} else {
			missIdx = append(missIdx, i)
		}
	}
	c.mu.Unlock()
	for s := 0; s < len(missIdx); s += BatchSize {
		e := s + BatchSize
		if e > len(missIdx) {
			e = len(missIdx)
		}
		batch := make([]*Prog, 0, e-s)
		for _, i := range missIdx[s:e] {
			batch = append(batch, progs[i])
		}
		out, err := buildAndRun(batch)
		if err != nil {
			return nil, err
		}
		c.mu.Lock()
		for k, i := range missIdx[s:e] {
			res[i] = out[k]
			c.m[hashes[i]] = out[k]
			c.Built++
		}
		c.dirty = true
		c.mu.Unlock()
	}
	return res, nil
}

var pkgErrRe = regexp.MustCompile(`(?m)^# o/([0-9a-zA-Z_]+)`)

func goEnv(dir string) []string {
	env := os.Environ()
	env = append(env, "GOFLAGS=-mod=mod", "GOPROXY=off", "GOSUMDB=off", "GOTOOLCHAIN=local", "CGO_ENABLED=0", "GO111MODULE=on")
	return env
}

func buildAndRun(progs []*Prog) ([]Result, error) {
	dir, err := os.MkdirTemp("/var/tmp", "verif-oracle-")
	if err != nil {
		return nil, err
	}
	defer os.RemoveAll(dir)
	res := make([]Result, len(progs))
	alive := make([]bool, len(progs))
	os.WriteFile(filepath.Join(dir, "go.mod"), []byte("module "+ModPrefix+"\n\ngo 1.20\n"), 0o644)
	byPkg := map[string]int{}
	for i, p := range progs {
		alive[i] = true
		if _, dup := byPkg[p.Pkg]; dup {
			return nil, fmt.Errorf("duplicate package name %s in batch", p.Pkg)
		}
		byPkg[p.Pkg] = i
		for name, src := range p.Files {
			full := filepath.Join(dir, p.Pkg, name)
			os.MkdirAll(filepath.Dir(full), 0o755)
			if err := os.WriteFile(full, []byte(src), 0o644); err != nil {
				return nil, err
			}
		}
	}
	for attempt := 0; attempt < 4; attempt++ {
		var d bytes.Buffer
		d.WriteString("package main\n\nimport (\n\t\"fmt\"\n\t\"os\"\n")
		for i, p := range progs {
			if alive[i] {
				fmt.Fprintf(&d, "\t%s \"%s/%s\"\n", p.Pkg, ModPrefix, p.Pkg)
			}
		}
		d.WriteString(")\n\nfunc run(i int, f func()) {\n\tdefer func() {\n\t\tst := \"OK\"\n\t\tif r := recover(); r != nil {\n\t\t\tst = \"PANIC\"\n\t\t}\n\t\tfmt.Fprintf(os.Stdout, \"\\x00\\x01END %d %s\\n\", i, st)\n\t}()\n\tf()\n}\n\nfunc main() {\n")
		for i, p := range progs {
			if alive[i] {
				fmt.Fprintf(&d, "\trun(%d, %s.%s)\n", i, p.Pkg, p.Entry)
			}
		}
		d.WriteString("}\n")
		os.WriteFile(filepath.Join(dir, "main.go"), d.Bytes(), 0o644)
		ctx, cancel := context.WithTimeout(context.Background(), 15*time.Minute)
		cmd := exec.CommandContext(ctx, "go", "build", "-gcflags=-e", "-o", "driver", ".")
		cmd.Dir = dir
		cmd.Env = goEnv(dir)
		out, err := cmd.CombinedOutput()
		cancel()
		if err == nil {
			break
		}
		// mark the packages the toolchain rejected and retry without them
		s := string(out)
		locs := pkgErrRe.FindAllStringSubmatchIndex(s, -1)
		if len(locs) == 0 || attempt == 3 {
			return nil, fmt.Errorf("oracle build failed: %v\n%s", err, trunc(s, 4000))
		}
		for k, loc := range locs {
			pkg := s[loc[2]:loc[3]]
			end := len(s)
			if k+1 < len(locs) {
				end = locs[k+1][0]
			}
			if i, ok := byPkg[pkg]; ok {
				alive[i] = false
				res[i].BuildErr = trunc(s[loc[0]:end], 1500)
			}
		}
	}
	ctx, cancel := context.WithTimeout(context.Background(), 10*time.Minute)
	defer cancel()
	cmd := exec.CommandContext(ctx, filepath.Join(dir, "driver"))
	cmd.Dir = dir
	var stdout, stderr bytes.Buffer
	cmd.Stdout, cmd.Stderr = &stdout, &stderr
	if err := cmd.Run(); err != nil {
		return nil, fmt.Errorf("oracle driver failed: %v\n%s", err, trunc(stderr.String(), 3000))
	}
	rest := stdout.String()
	for i := range progs {
		if !alive[i] {
			continue
		}
		marker := fmt.Sprintf("\x00\x01END %d ", i)
		k := strings.Index(rest, marker)
		if k < 0 {
			return nil, fmt.Errorf("oracle output lacks marker for program %d", i)
		}
		res[i].Out = rest[:k]
		rest = rest[k+len(marker):]
		nl := strings.IndexByte(rest, '\n')
		res[i].Panicked = rest[:nl] == "PANIC"
		rest = rest[nl+1:]
	}
	return res, nil
}

func trunc(s string, n int) string {
	if len(s) > n {
		return s[:n] + "…"
	}
	return s
}
