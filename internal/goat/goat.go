// Package goat runs programs and operation histories on the real goatlang
// (the /repo working tree, built with -tags verif) under an instruction budget.
package goat

import (
	"bytes"
	"fmt"
	"io/fs"
	"strings"
	"testing/fstest"

	"github.com/philhassey/goatlang"
)

const (
	DefaultSteps = 2_000_000
	DefaultDepth = 20_000
)

// Result of one guarded entry into goatlang.
type Result struct {
	Out       string
	Rets      []goatlang.Value
	Err       error
	HostPanic any  // a Go panic that escaped the public entry point
	Budget    bool // stopped by the verification budget
}

func (r Result) Failed() bool { return r.Err != nil || r.HostPanic != nil }

// Status is "ok", "error", "panic" or "budget".
func (r Result) Status() string {
	switch {
	case r.Budget:
		return "budget"
	case r.HostPanic != nil:
		return "panic"
	case r.Err != nil:
		return "error"
	}
	return "ok"
}

func (r Result) String() string {
	s := r.Status()
	if r.Err != nil {
		s += ": " + r.Err.Error()
	}
	if r.HostPanic != nil {
		s += fmt.Sprintf(": %v", r.HostPanic)
	}
	return fmt.Sprintf("%s\nstdout=%q", s, r.Out)
}

// M is a VM with captured stdout and a budget context.
type M struct {
	VM  *goatlang.VM
	Out *bytes.Buffer
	Ctx *goatlang.VerifCtx
}

func New() *M {
	m := &M{Out: &bytes.Buffer{}}
	m.VM = goatlang.New(goatlang.WithStdout(m.Out))
	m.Ctx = &goatlang.VerifCtx{MaxSteps: DefaultSteps, MaxDepth: DefaultDepth}
	goatlang.VerifAttach(m.VM, m.Ctx)
	Sandbox(m.VM)
	return m
}

// Sandbox replaces the natives that touch the environment: enumerated inputs (and the repository's own
// test-table strings) may call os.WriteFile / os.ReadFile / time.Sleep; inside the checks they must neither
// write files nor stall.  time.Sleep keeps its one observable effect for the VM: it yields.
func Sandbox(vm *goatlang.VM) {
	vm.Set("os.WriteFile", goatlang.NewFunc(3, 1, func(v *goatlang.VM, args []goatlang.Value) goatlang.Value { return goatlang.Nil() }))
	vm.Set("os.ReadFile", goatlang.NewFunc(1, 2, func(v *goatlang.VM, args []goatlang.Value) []goatlang.Value {
		return []goatlang.Value{goatlang.NewSlice(goatlang.TypeUint8, nil), goatlang.Nil()}
	}))
	vm.Set("time.Sleep", goatlang.NewFunc(1, 0, func(v *goatlang.VM, args []goatlang.Value) { v.Yield() }))
}

// Close releases the context registration (the registry is keyed by pointer).
func (m *M) Close() { goatlang.VerifDetach(m.VM) }

// Guard runs f (one public entry point call), converting an escaping panic.
func (m *M) Guard(f func() ([]goatlang.Value, error)) (res Result) {
	m.Ctx.Steps = 0
	start := m.Out.Len()
	defer func() {
		if p := recover(); p != nil {
			res.HostPanic = p
		}
		if m.Out.Len() > start {
			res.Out = m.Out.String()[start:]
		}
		if res.Err != nil && strings.Contains(res.Err.Error(), goatlang.VerifBudgetMsg) {
			res.Budget = true
		}
		if res.HostPanic != nil && strings.Contains(fmt.Sprint(res.HostPanic), goatlang.VerifBudgetMsg) {
			res.Budget = true
		}
	}()
	res.Rets, res.Err = f()
	return res
}

func (m *M) Eval(sys fs.FS, src string, opts ...goatlang.RunOption) Result {
	if sys == nil {
		sys = fstest.MapFS{}
	}
	return m.Guard(func() ([]goatlang.Value, error) { return m.VM.Eval(sys, "eval.go", src, opts...) })
}

func (m *M) Load(sys fs.FS, arg string, opts ...goatlang.RunOption) Result {
	return m.Guard(func() ([]goatlang.Value, error) { return nil, m.VM.Load(sys, arg, opts...) })
}

func (m *M) Call(name string, xRets int, params ...goatlang.Value) Result {
	return m.Guard(func() ([]goatlang.Value, error) { return m.VM.Call(name, xRets, params...) })
}

func (m *M) Func(f goatlang.Value, xRets int, params ...goatlang.Value) Result {
	return m.Guard(func() ([]goatlang.Value, error) { return m.VM.Func(f, xRets, params...) })
}

// FS builds an in-memory file system from path -> content.
func FS(files map[string]string) fstest.MapFS {
	sys := fstest.MapFS{}
	for k, v := range files {
		sys[k] = &fstest.MapFile{Data: []byte(v)}
	}
	return sys
}

// RunMain loads directory dir from files and calls entry (e.g. "main.Main").
// The combined stdout of load and call is returned.
func RunMain(files map[string]string, dir, entry string) Result {
	m := New()
	defer m.Close()
	r := m.Load(FS(files), dir)
	if r.Failed() || entry == "" {
		return r
	}
	r2 := m.Call(entry, 0)
	r2.Out = r.Out + r2.Out
	return r2
}

// TypeOf returns the dynamic type as the script-level __type builtin prints it.
func (m *M) TypeOf(v goatlang.Value) string { return goatlang.VerifTypeOf(m.VM, v) }
