// Package par: a fixed worker pool over an index range.
package par

import (
	"runtime"
	"sync"
	"sync/atomic"
)

// Workers is the number of parallel workers used by the checks.
var Workers = runtime.NumCPU()

// Do calls f(i) for every i in [0,n) on Workers goroutines (dynamic hand-out in chunks).
func Do(n int, f func(i int)) {
	DoChunk(n, 1, f)
}

func DoChunk(n, chunk int, f func(i int)) {
	if chunk < 1 {
		chunk = 1
	}
	var next int64
	var wg sync.WaitGroup
	w := Workers
	if w > n {
		w = n
	}
	if w < 1 {
		w = 1
	}
	for k := 0; k < w; k++ {
		wg.Add(1)
		go func() {
			defer wg.Done()
			for {
				s := int(atomic.AddInt64(&next, int64(chunk))) - chunk
				if s >= n {
					return
				}
				e := s + chunk
				if e > n {
					e = n
				}
				for i := s; i < e; i++ {
					f(i)
				}
			}
		}()
	}
	wg.Wait()
}
