// Package report: evidence files, replay files, VIOLATION / KNOWN-FINDING lines.
package report

import (
	"crypto/sha256"
	"encoding/hex"
	"encoding/json"
	"fmt"
	"os"
	"path/filepath"
	"sort"
	"strconv"
	"strings"
	"sync"
	"time"
)

// Root is /verif, or the snapshot directory a background run was started in (VERIF_ROOT, set by bin/check).
var Root = func() string {
	if r := os.Getenv("VERIF_ROOT"); r != "" {
		return r
	}
	return "/verif"
}()

// Case is one explored case that failed: everything needed to re-run it.
type Case struct {
	Property string            `json:"property"`
	Kind     string            `json:"kind"`            // which sub-check produced it
	Key      string            `json:"key"`             // canonical text of the case (hashed for known findings)
	Files    map[string]string `json:"files,omitempty"` // source files, if any
	Input    any               `json:"input,omitempty"` // history / arguments / options
	Want     string            `json:"want"`
	Got      string            `json:"got"`
	Note     string            `json:"note,omitempty"`
}

func (c *Case) Hash() string {
	h := sha256.Sum256([]byte(c.Property + "\x00" + c.Kind + "\x00" + c.Key))
	return hex.EncodeToString(h[:])
}

type finding struct {
	Status   string   `json:"status"` // "open" | "fixed"
	Property string   `json:"property"`
	ID       string   `json:"id,omitempty"`
	Commit   string   `json:"commit,omitempty"`
	What     string   `json:"what"`
	Inputs   []string `json:"inputs,omitempty"` // sha256 of the failing cases (open findings only)
}

// Run collects what one check run covered.
type Run struct {
	mu          sync.Mutex
	ID          string
	Tier        string
	Seed        int
	start       time.Time
	Deadline    time.Time
	evals       int64
	nontrivial  map[string]struct{}
	ntCount     int64
	outcomes    map[string]struct{}
	samples     []any
	extra       map[string]any
	assumptions []string
	rule        string
	violations  []*Case
	vioTotal    int
	knownHit    map[string]int
	known       map[string]*finding // hash -> finding
	exhaustive  bool
	harnessErr  []string
	Rerun       func(*Case) (bool, string) // re-executes a case; true = still fails
}

func New(id, tier string) *Run {
	seed, _ := strconv.Atoi(os.Getenv("VERIF_SEED"))
	r := &Run{ID: id, Tier: tier, Seed: seed, start: time.Now(),
		nontrivial: map[string]struct{}{}, outcomes: map[string]struct{}{}, extra: map[string]any{},
		knownHit: map[string]int{}, known: map[string]*finding{}, exhaustive: true}
	r.loadKnown()
	return r
}

func (r *Run) loadKnown() {
	b, err := os.ReadFile(filepath.Join(Root, "known_findings.json"))
	if err != nil {
		return
	}
	var fs []*finding
	if err := json.Unmarshal(b, &fs); err != nil {
		fmt.Fprintln(os.Stderr, "known_findings.json:", err)
		os.Exit(2)
	}
	for _, f := range fs {
		if f.Status != "open" || f.Property != r.ID {
			continue
		}
		for _, h := range f.Inputs {
			r.known[h] = f
		}
	}
}

func (r *Run) Eval(n int) {
	r.mu.Lock()
	r.evals += int64(n)
	r.mu.Unlock()
}

// Nontrivial counts a distinct non-trivial case; key must identify the case.
func (r *Run) Nontrivial(key string) {
	r.mu.Lock()
	if len(r.nontrivial) < 2_000_000 {
		h := sha256.Sum256([]byte(key))
		k := string(h[:8])
		if _, ok := r.nontrivial[k]; !ok {
			r.nontrivial[k] = struct{}{}
			r.ntCount++
		}
	} else {
		r.ntCount++ // beyond the dedup table: enumerators never repeat a case
	}
	r.mu.Unlock()
}

// NontrivialN adds n cases that the caller guarantees are distinct.
func (r *Run) NontrivialN(n int) {
	r.mu.Lock()
	r.ntCount += int64(n)
	r.mu.Unlock()
}

func (r *Run) Outcome(o string) {
	r.mu.Lock()
	if len(r.outcomes) < 1_000_000 {
		h := sha256.Sum256([]byte(o))
		r.outcomes[string(h[:8])] = struct{}{}
	}
	r.mu.Unlock()
}

func (r *Run) Sample(s any) {
	r.mu.Lock()
	if len(r.samples) < 8 {
		r.samples = append(r.samples, s)
	}
	r.mu.Unlock()
}

func (r *Run) Set(k string, v any) { r.mu.Lock(); r.extra[k] = v; r.mu.Unlock() }
func (r *Run) Add(k string, n int) {
	r.mu.Lock()
	x, _ := r.extra[k].(int)
	r.extra[k] = x + n
	r.mu.Unlock()
}
func (r *Run) Rule(s string)      { r.rule = s }
func (r *Run) Assume(s ...string) { r.assumptions = append(r.assumptions, s...) }
func (r *Run) NotExhaustive(why string) {
	r.mu.Lock()
	r.exhaustive = false
	r.extra["not_exhaustive_because"] = why
	r.mu.Unlock()
}
func (r *Run) Expired() bool { return !r.Deadline.IsZero() && time.Now().After(r.Deadline) }

// HarnessError records a problem of the machinery itself (exit 2, never a VIOLATION).
func (r *Run) HarnessError(format string, a ...any) {
	r.mu.Lock()
	r.harnessErr = append(r.harnessErr, fmt.Sprintf(format, a...))
	r.mu.Unlock()
}

// Fail records a failing case. Known findings are matched by exact hash.
func (r *Run) Fail(c *Case) {
	c.Property = r.ID
	h := c.Hash()
	r.mu.Lock()
	defer r.mu.Unlock()
	if f, ok := r.known[h]; ok {
		r.knownHit[f.ID]++
		return
	}
	r.vioTotal++
	if f := os.Getenv("VERIF_DUMP_FAILS"); f != "" { // development aid: list failing case hashes
		if fh, err := os.OpenFile(f, os.O_APPEND|os.O_CREATE|os.O_WRONLY, 0o644); err == nil {
			fmt.Fprintf(fh, "%s\t%s\t%s\n", h, c.Kind, strings.ReplaceAll(c.Key, "\n", "\\n"))
			fh.Close()
		}
	}
	if len(r.violations) < 20 {
		r.violations = append(r.violations, c)
	}
}

func (r *Run) Violations() int { r.mu.Lock(); defer r.mu.Unlock(); return r.vioTotal }

// Finish writes the evidence file, prints the result lines and exits.
func (r *Run) Finish() {
	code := 0
	// known findings
	ids := make([]string, 0, len(r.knownHit))
	for id := range r.knownHit {
		ids = append(ids, id)
	}
	sort.Strings(ids)
	seen := map[string]bool{}
	for _, f := range r.known {
		if r.knownHit[f.ID] > 0 && !seen[f.ID] {
			seen[f.ID] = true
		}
	}
	for _, id := range ids {
		var what string
		for _, f := range r.known {
			if f.ID == id {
				what = f.What
				break
			}
		}
		fmt.Printf("KNOWN-FINDING: property=%s %s (%s; %d listed cases failed)\n", r.ID, what, id, r.knownHit[id])
	}
	// violations: re-run each before believing it
	os.MkdirAll(filepath.Join(Root, "replay"), 0o755)
	reported := 0
	for _, c := range r.violations {
		if r.Rerun != nil {
			still, got := r.Rerun(c)
			if !still {
				r.harnessErr = append(r.harnessErr, fmt.Sprintf("case %s/%s did not reproduce on re-run (got %q)", c.Kind, c.Hash()[:12], got))
				continue
			}
		}
		p := filepath.Join(Root, "replay", fmt.Sprintf("%s-%s.json", r.ID, c.Hash()[:12]))
		b, _ := json.MarshalIndent(c, "", " ")
		os.WriteFile(p, b, 0o644)
		fmt.Printf("VIOLATION property=%s replay=%s\n", r.ID, p)
		fmt.Printf("  kind=%s sha256=%s\n  case: %s\n  want: %s\n  got:  %s\n", c.Kind, c.Hash(), trunc(c.Key, 600), trunc(c.Want, 300), trunc(c.Got, 300))
		reported++
	}
	if reported > 0 {
		code = 1
	}
	if r.vioTotal > len(r.violations) {
		fmt.Printf("  (%d failing cases in total; first %d shown)\n", r.vioTotal, len(r.violations))
	}
	for _, e := range r.harnessErr {
		fmt.Fprintln(os.Stderr, "HARNESS-ERROR:", e)
		if code == 0 {
			code = 2
		}
	}
	cov := map[string]any{
		"evaluations":         r.evals,
		"distinct_nontrivial": r.ntCount,
		"distinct_outcomes":   len(r.outcomes),
		"rule":                r.rule,
		"samples":             r.samples,
		"exhaustive":          r.exhaustive,
		"known_findings_hit":  r.knownHit,
	}
	for k, v := range r.extra {
		cov[k] = v
	}
	if cov["samples"] == nil || len(r.samples) == 0 {
		cov["samples"] = []any{"(no case explored)"}
	}
	ev := map[string]any{
		"property_id": r.ID,
		"tier":        r.Tier,
		"seed":        r.Seed,
		"level":       "model_checking",
		"coverage":    cov,
		"assumptions": r.assumptions,
		"wall_s":      time.Since(r.start).Seconds(),
		"violations":  r.vioTotal,
	}
	b, _ := json.MarshalIndent(ev, "", " ")
	os.MkdirAll(filepath.Join(Root, "evidence"), 0o755)
	if err := os.WriteFile(filepath.Join(Root, "evidence", r.ID+".json"), append(b, '\n'), 0o644); err != nil {
		fmt.Fprintln(os.Stderr, "HARNESS-ERROR: cannot write evidence:", err)
		if code == 0 {
			code = 2
		}
	}
	fmt.Printf("%s %s: evaluations=%d distinct_nontrivial=%d outcomes=%d violations=%d exhaustive=%v wall=%.1fs\n",
		r.ID, r.Tier, r.evals, r.ntCount, len(r.outcomes), r.vioTotal, r.exhaustive, time.Since(r.start).Seconds())
	os.Exit(code)
}

func trunc(s string, n int) string {
	if len(s) > n {
		return s[:n] + "…"
	}
	return s
}

// ReadCase loads a replay file.
func ReadCase(path string) (*Case, error) {
	b, err := os.ReadFile(path)
	if err != nil {
		return nil, err
	}
	var c Case
	if err := json.Unmarshal(b, &c); err != nil {
		return nil, err
	}
	return &c, nil
}
